#!/usr/bin/env python3
"""Mechanical mutation sweep (a sanity net next to the agent-written seeded changes).

usage: tools/mech_mutants.py <n> [<seed>]      (results appended to /tmp/mech/results.tsv)

Enumerates single-token mutations of the repository's library sources (relational and boolean
operators, +/- 1, += / -=, small constants, a dropped `?` statement that calls sync/flush/remove),
samples <n> of them with a fixed seed, and for each one, in the scratch worktree /tmp/wt/mech:
  1. applies it; skips it if `cargo build --features verif` fails;
  2. skips it if the existing test suite already fails (not interesting here);
  3. runs the quick checks of the area (storage or net), most likely killer first, through
     tools/try_mutant_wt.sh (private simulation copy /tmp/simmech) until one reports a violation.
A mutant that no check reports is a SURVIVOR: either equivalent / outside every property, or a gap.
Nothing is written under /verif or /repo.
"""
import os, random, re, subprocess, sys, time

WT = '/tmp/wt/mech'
OUT = '/tmp/mech'
FILES_STORE = ['src/storage/bitcask.rs', 'src/storage/bitcask/log.rs', 'src/storage/bitcask/bufio.rs', 'src/storage/bitcask/utils.rs']
FILES_NET = ['src/net/frame.rs', 'src/net/connection.rs', 'src/net/server.rs', 'src/net/command.rs', 'src/net/command/get.rs', 'src/net/command/set.rs', 'src/net/command/del.rs', 'src/shutdown.rs']
CHECKS_STORE = ['C01', 'C05', 'C02', 'C19', 'C03', 'C20', 'C09', 'C13', 'C14', 'C12', 'C04', 'C17', 'C18']
CHECKS_NET = ['C06', 'C08', 'C10', 'C16', 'C15', 'C11']

RULES = [
    (r' >= ', ' > '), (r' <= ', ' < '), (r' > ', ' >= '), (r' < ', ' <= '), (r' == ', ' != '), (r' != ', ' == '),
    (r' && ', ' || '), (r' \|\| ', ' && '), (r' \+ 1\b', ' + 2'), (r' \+ 1\b', ''), (r' - 1\b', ''), (r' \+= ', ' -= '), (r' -= ', ' += '),
    (r'\b0\.0\b', '1.0'), (r'if !', 'if '), (r'\.max\(', '.min('), (r'\.min\(', '.max('), (r'saturating_add', 'saturating_sub'),
]
DROP = re.compile(r'^\s*[A-Za-z_\.\(\)&:<> ]*(sync_all|sync\(\)|flush\(\)|remove_file|\.remove\(|add_permits|overwrite\(|add_dead\(|add_live\(|discard\(\))[^\n]*\?;\s*$|^\s*[a-z_\.]*\.(remove|add_permits|overwrite|add_dead|add_live)\([^\n]*\);\s*$')


def sh(cmd, cwd=None, timeout=3600):
    return subprocess.run(cmd, shell=True, cwd=cwd, capture_output=True, text=True, timeout=timeout)


def candidates():
    out = []
    for f in FILES_STORE + FILES_NET:
        lines = open(os.path.join(WT, f)).read().split('\n')
        in_tests = False
        for i, line in enumerate(lines):
            if '#[cfg(test)]' in line:
                in_tests = True
            if in_tests:
                continue
            s = line.strip()
            if s.startswith('//') or s.startswith('///') or 'debug!' in s or 'info!' in s or 'error!' in s or s.startswith('#['):
                continue
            for pat, rep in RULES:
                for m in re.finditer(pat, line):
                    new = line[:m.start()] + rep + line[m.end():]
                    out.append((f, i, line, new, '%s -> %s' % (pat.strip(), rep.strip() or '(dropped)')))
            if DROP.match(line):
                out.append((f, i, line, '', 'statement dropped'))
    return out


def main():
    n = int(sys.argv[1])
    seed = int(sys.argv[2]) if len(sys.argv) > 2 else 1
    os.makedirs(OUT, exist_ok=True)
    if not os.path.isdir(WT):
        sh('git -C /repo worktree add -q --detach %s HEAD && cp -r /repo/target %s/target' % (WT, WT))
    sh('git checkout -q -- .', cwd=WT)
    cands = candidates()
    random.Random(seed).shuffle(cands)
    done = 0
    res = open(os.path.join(OUT, 'results.tsv'), 'a')
    for (f, i, old, new, what) in cands:
        if done >= n:
            break
        sh('git checkout -q -- .', cwd=WT)
        p = os.path.join(WT, f)
        lines = open(p).read().split('\n')
        if lines[i] != old:
            continue
        lines[i] = new
        open(p, 'w').write('\n'.join(lines))
        b = sh('cargo build --offline --features verif 2>&1 | tail -3', cwd=WT)
        if 'error' in b.stdout:
            continue
        t = sh('cargo test --offline 2>&1 | grep -E "^test result" | head -1', cwd=WT)
        if ' 0 failed' not in t.stdout:
            res.write('%s:%d\t%s\tkilled-by-existing-tests\t-\t%s\n' % (f, i + 1, what, old.strip()))
            res.flush()
            continue
        done += 1
        checks = CHECKS_STORE if f in FILES_STORE else CHECKS_NET
        verdict, by = 'SURVIVED', '-'
        t0 = time.time()
        for c in checks:
            r = sh('SWEEP_SIM=/tmp/simmech MUTANT_OUT=/tmp/mech/out /verif/tools/try_mutant_wt.sh %s %s' % (WT, c))
            line = [l for l in r.stdout.split('\n') if l.startswith(c)]
            if line and 'exit=1' in line[0]:
                verdict, by = 'caught', c + ' ' + line[0].split('violation in run')[-1][:110].strip()
                break
            if line and 'exit=2' in line[0]:
                verdict, by = 'exit2', c
                break
        res.write('%s:%d\t%s\t%s\t%s\t%s\t%ds\n' % (f, i + 1, what, verdict, by, old.strip()[:90], time.time() - t0))
        res.flush()
    sh('git checkout -q -- .', cwd=WT)


if __name__ == '__main__':
    main()
