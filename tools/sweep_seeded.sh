#!/bin/bash
# usage: tools/sweep_seeded.sh [<repo-dir>]     (default /repo; use a scratch copy for background sweeps)
# Runs, for every seeded change, the quick check of the property it breaks (and any further check
# named in its meta.json "sweep_checks") against a tree with the change applied, and writes seeded/RESULTS.md (detected / missed, first violation line).
REPO=${1:-/repo}
VERIF=$(cd "$(dirname "$0")/.." && pwd)
OUT=${SWEEP_OUT:-/tmp/sweep_out}
mkdir -p "$OUT/evidence" "$OUT/replays"
res="$VERIF/seeded/RESULTS.md"
{
  echo "# Seeded changes vs. checks"
  echo
  echo "Produced by tools/sweep_seeded.sh on $(date -u +%Y-%m-%dT%H:%MZ) against $(git -C "$REPO" log --format=%h -1) (quick tier, VERIF_SEED=${VERIF_SEED:-1})."
  echo
  echo "| seeded change | property | check | exit | seconds | first violation |"
  echo "|---|---|---|---|---|---|"
} > "$res.tmp"
git -C "$REPO" status --short | grep -q . && { echo "refusing: $REPO is dirty"; exit 2; }
for d in "$VERIF"/seeded/*/; do
  id=$(basename "$d")
  prop=$(python3 -c "import json;print(json.load(open('$d/meta.json'))['breaks_property'])")
  checks=$(python3 -c "import json;m=json.load(open('$d/meta.json'));print(' '.join(m.get('sweep_checks',[m['breaks_property']])))")
  git -C "$REPO" apply "$d/patch.diff" || { echo "| $id | $prop | patch does not apply | | | |" >> "$res.tmp"; continue; }
  for c in $checks; do
    t0=$(date +%s)
    BITCASK_REPO="$REPO" "$VERIF/check" "$c" --evidence "$OUT/evidence/$id.$c.json" --replays "$OUT/replays" > "$OUT/$id.$c.log" 2>&1
    rc=$?
    t1=$(date +%s)
    v=$(grep -m1 -E "^violation in run" "$OUT/$id.$c.log" | sed 's/|/\\|/g' | cut -c1-200)
    echo "| $id | $prop | $c | $rc | $((t1-t0)) | $v |" >> "$res.tmp"
    echo "$id $prop check=$c exit=$rc $((t1-t0))s"
  done
  git -C "$REPO" checkout -- .
done
mv "$res.tmp" "$res"
