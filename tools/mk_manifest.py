#!/usr/bin/env python3
"""Regenerates /verif/MANIFEST.json from the table below (keeps it valid and in one place)."""
import json, os, subprocess

HERE = os.path.dirname(os.path.abspath(__file__))
VERIF = os.path.dirname(HERE)

def repo_commits():
    out = subprocess.run(["git", "-C", "/repo", "log", "--format=%h %s"], capture_output=True, text=True).stdout.splitlines()
    hooks = [l.split()[0] for l in out if l.split(" ", 1)[1].startswith("verif hooks")]
    return hooks

SEQ_NOTE = ("Trusted base: the simulator (simrt scheduler/clock, libc interposer, shadow file system), the facades' "
            "fidelity to the real crates' semantics, the reference map model and the independent on-disk decoder. "
            "Sampling, not proof: a clean batch is evidence over the seeds explored.")

CHECKS = {
 "C01": ("exploration", "§6 C01", "deterministic simulation: sequential store workloads vs. map model on the simulated disk, seeded swarm search",
         "Seeded simulated runs of the real store (real files on tmpfs behind the libc interposer, real background thread under the simulated scheduler and clock) against a BTreeMap model, operation by operation plus periodic full scans; configurations include max_file_size 0/1, cache 0, pool 0, values around and above the 8 KiB buffer and above the file limit, merges by hook and by the store's own timer, legal short writes/EINTR/latency."),
 "C02": ("exploration", "§6 C02", "deterministic simulation: close/reopen cycles vs. map model, seeded swarm search",
         "Histories of set/delete across many data files followed by 1-4 reopen cycles (also back to back, also while the old background thread is still alive); a fifth of the workloads run with the store's own timer-driven merging switched on (the default configuration merges in the background); after each reopen a full scan must equal the model and, where nothing but client writes changes the store, a reopen without writes must leave the set of non-empty data files unchanged."),
 "C04": ("exploration", "§6 C04", "deterministic simulation: seeded random / PCT schedules of writer, reader and merger threads; per-key linearizability check (Wing-Gong search) of the recorded history against a register model",
         "1-3 writer threads, 1-3 reader threads and optionally a merging thread (hook) or the store's own timer-driven merges share one store; every lock, atomic, queue operation and every file-system call is a scheduling point decided by the seeded scheduler (random with 2-40% switch probability, PCT depth 1-5). Values straddle the 8 KiB buffer (two-write entries), pool 1-4, cache 0-256, small file limits. Oracles: no operation errs or panics, each key's history with a final quiescent read is linearizable, no deadlock/livelock (facts from the scheduler's wait-for state), the reader pool is back at capacity."),
 "C05": ("exploration", "§6 C05", "deterministic simulation: scan-before == scan-after == scan-after-reopen == model around every merge, thresholds re-tuned from live statistics",
         "Histories with merges at arbitrary positions under all threshold classes, including thresholds re-tuned from the live per-file statistics (Retune) so that strict subsets of files are selected, followed by reopen cycles."),
 "C10": ("exploration", "§6 C10", "deterministic simulation of the full stack with hostile clients: attack grammar on 1-3 connections concurrently with 1-2 control connections; worker process survival observed by the supervisor",
         "Hostile connections send a prefix of well-formed commands on their own keys and then one malformed item (random bytes, non-command RESP, unknown command, wrong arity, non-bulk arguments, non-UTF-8 keys, truncated frames, absurd or overflowing lengths, numbers beyond offset 18, arrays nested 2..65536 deep (262144 in the thorough tier)). Handler tasks run on simulated threads with tokio's 2 MiB stacks, so stack exhaustion kills the worker process as in production and is reported with its seed. Oracles: process alive, control replies equal the model, a fresh connection is served at the end, the store holds per hostile connection a prefix of its well-formed commands and no foreign key, no control connection is closed."),
 "C11": ("exploration", "§6 C11", "deterministic simulation of the full stack: 2-4 scripted clients on separate connections under seeded schedules and network timing; per-key linearizability (Wing-Gong) of request/reply stamps incl. per-connection order",
         "3-12 single-key SET/GET/DEL per client over 2-3 shared keys, closed loop or pipelined (window <= 3; a third of the clients pipeline 4-8 deep, mostly reading one key), unique values, W in {1,2,4} runtime workers, every command on its own blocking thread, small file limits, merges by a harness thread or the store's timer, disk latency. invoke = stamp when the last request byte was accepted by the transport, return = stamp when the last reply byte was read; each key's history plus a final read must be linearizable, with each connection's own request order kept in the search even where its pipelined requests overlap in time; every request gets exactly one well-formed reply; no connection is closed by the server."),
 "C12": ("exploration", "§6 C12", "deterministic simulation: recovery of the closed directory with and without hint files, differential oracle",
         "The closed directory is materialised twice from the recorded shadow, once with every *.hint removed; both are opened with the real open and every key of the universe and on disk must read identically."),
 "C13": ("exploration", "§6 C13", "deterministic simulation: data-file sizes around every merge vs. independent size formula and ground-truth scan",
         "At every merge total data size must not grow; when the thresholds make every non-empty data file eligible (small-file threshold u64::MAX) or the I/O log shows every such file was removed, the total must equal the data size of a fresh store built by the real code from exactly the live pairs, each live key occurs once and no tombstone remains (independent decoder), and a repeated merge changes nothing."),
 "C14": ("exploration", "§6 C14", "deterministic simulation: I/O-log monitor of the file discipline over sequential and reopen workloads",
         "Every tracked libc call on the store directory is checked: exclusive append-only creation, writes only through the creating descriptor at the end of file, no pwrite/writev/truncate/rename/link, ids strictly above everything the directory ever contained, size bound per file, real bytes == recorded bytes. A sixth of the runs are the fault workloads of C20 with one failed call or a short episode at a random position, judged by this file discipline only ('across rollovers, merges, crashes and reopens' includes the clean-up paths after failed calls); a rename is recorded as a breach and also applied to the shadow file system."),
 "C03": ("fault_enumeration", "§6 C03", "deterministic simulation with crash injection: every file-system-call boundary of every sampled workload is a kill point; images built from the recorded shadow and recovered with the real open",
         "For each sampled workload (set/del/merge/reopen, small file limits so rollovers and multi-file merges are common) every state-changing I/O record is a crash point (quick tier: at most 80 per workload, always including first/last record of every operation; thorough: all). The directory image after that prefix of calls is materialised and opened with the real Config::open; every key must read the acknowledged value or the in-flight operation's value, never error/panic/older value; on shares of the images the recovered store must accept a set/get/del round, a second open must read the same, writes the recovered store acknowledges must survive its own clean close and reopen (and, on half of those images, a second kill instead of the close), and a merge on the recovered store (workload's thresholds) must change no read, neither at once nor after a clean close and reopen. A quarter of the workloads are concurrent (2-3 writer threads on disjoint keys plus a merging thread under a seeded schedule; crash points are positions in the global I/O log). A quarter of the sequential workloads contain one failed file-system call (or an episode of 2-3: a full disk or a failing device) before the kill: the operation it hits may fail and its value is then one more alternative for its key until a later acknowledged operation on that key; everything else is judged as before."),
 "C06": ("exploration", "§6 C06", "deterministic simulation of the full stack: real Server on the simulated runtime and TCP model, one scripted client with seeded segmentation and pipelining, sequential map model, independent RESP reply decoder",
         "1-40 well-formed SET/GET/DEL requests (values with CR, LF, NUL, empty, >8 KiB; UTF-8 keys incl. empty and multi-byte; DEL with repeated/absent keys) sent in pieces of 1 byte / random sizes / whole, pipelining windows 1..all, socket capacities 64 B - 64 KiB (partial writes, back-pressure), per-segment delay, read segmentation down to one byte, spurious Pending; a third of the clients now and then send only a prefix of a request, wait for every reply that is due, and then send the rest. Exactly one reply per request, in order, equal to the model; nothing more; final store scan equals the model; the server stops on the shutdown signal."),
 "C08": ("exploration", "§6 C08", "deterministic simulation: two real Connection ends over one simulated stream (or a raw harness writer that stalls / cuts inside a frame), seeded segmentation; independent encoder as reference",
         "Sequences of 1-12 frames from the property's domain (simple strings/errors, i64 extremes and 18/19-digit values, bulk strings incl. trailing CR, empty, 8190-70000 bytes, null, arrays, empty array). (a) write_frame into memory equals the independent encoding; (b) real writer -> simulated stream (partial writes, back-pressure, delays) -> real reader yields equal frames then a clean end; (c) raw writer stalls after a generated byte count: read_frame must have produced exactly the complete frames and still be pending; (d) raw writer cuts the stream inside a frame: read_frame must report an error, not a clean end."),
 "C09": ("fault_enumeration", "§6 C09", "deterministic simulation with power-loss injection: per crash point, per file any suffix after the last completed fsync is dropped; recovery with the real open vs. acknowledged-writes model",
         "Workloads under sync=always; every write/create/unlink/fsync record is a power-loss point with two images each: everything unsynced lost, and per-file random surviving lengths between synced and written length (torn tails, hint file ahead of data file). Same recovery oracle as C03, including the workloads with a failed file-system call (or a short episode of failures) before the power loss: what was acknowledged before and after the failed operation must still be durable. On a share of the points a lineage of TWO failures is followed: the process is killed (or loses power) at the point, restarts with sync=always, acknowledges a few writes and deletes and runs a merge, and then the power fails; what the restarted store acknowledged must be there, and every other key must still read what had been acknowledged (or was in flight) at the first failure."),
 "C20": ("fault_enumeration", "§6 C20", "deterministic simulation with I/O fault injection: one transient errno at each individual write/create/fsync/unlink call (a third of the runs also read-side calls), every position; in a third of the workloads every position is also the start of an episode of 2-4 consecutive failures (full disk / failing device)",
         "A fault-free pass of the workload (plus a final merge and close/reopen) lists its faultable calls; then the workload is re-run once per position with that call failed (ENOSPC/EIO/EDQUOT/EMFILE/EACCES; writes also as short-write-then-error). The failed operation must return Err, every other key must read the model value at once, all later operations must succeed and behave, a later merge must succeed, after close/reopen every acknowledged key reads its value, and the reader pool is back at capacity. A third of the quick runs (half of the thorough ones) also fail read-side calls (open for reading, fstat, mmap, read, opendir); a fifth let the store's own timer-driven merge/sync tasks make the failing call, after which a later tick of the same instance must merge again. In a third of the workloads each position is additionally run as the start of an episode: 1-3 further calls fail, either a full disk (writes and creates fail with ENOSPC, the rest works) or a failing device (every faultable call fails with EIO); an operation may fail exactly when a call of it was failed, a key can collect several alternatives from failed writes, and a failed open is retried as long as each failure coincides with a newly injected one."),
 "C15": ("exploration", "§6 C15", "deterministic simulation of the full stack: M in {1,2,3} slots, M+1..M+4 clients ending in every way the property lists (close, half-sent frame, reset, malformed command, handler panic and store error injected through the server's KV type parameter), accept errors with back-off on the simulated clock",
         "A connection is 'definitely held' from its first reply until its client performs the action that ends it. (i) never more than M definitely held; (ii) at every strongly quiescent point (nothing runnable, no timer pending) no client may still be waiting to be served; (iii) after all clients are gone M fresh clients must all be served at the same time. Half of the clients that wait for the server after a malformed command, an injected handler panic or store error, or a half-close never close their own socket once they have seen the server end the connection: a slot must not depend on the client closing a connection the server has already ended."),
 "C16": ("exploration", "§6 C16", "deterministic simulation of the full stack: the shutdown future is a simulator one-shot fired at a scripted point of a connection's life (idle, mid-frame, mid-command, reply in flight, pipelined) or at a generated simulated time",
         "0-4 clients on disjoint keys, all reading until end of stream; in a third of the runs the connection limit is 1 or 2, so that clients are still queued behind the limit (never served) when the signal fires. Oracles: Server::run returns within 60 simulated seconds (checked in growing steps) and no connection task is alive at the instant it returns; each client's byte stream is complete correct replies followed by end of stream (no torn reply); per connection the store holds a prefix of its requests at least as long as the replies it received; afterwards the port is free and no server task is alive."),
 "C17": ("exploration", "§6 C17", "deterministic simulation on the discrete-event clock: the store's background thread (adopted through pthread_create interposition) under seeded schedules, drop at generated instants, stale-handle use, immediate reopen, open/close cycles",
         "Merge policy always / interval sync with check intervals from 10 ms to 1 h (a fifth of the runs with the window policy: windows open, closed, closing, opening relative to the simulated wall clock), disk latency stretching merges and syncs, 0-2 client threads racing the drop; in a quarter of the runs with timer-driven merging one file-system call (or an episode of 2-4) of the store's own background threads fails while client calls are never failed. Oracles: every operation invoked through a handle after the drop returned yields the 'closed' error; operations racing the drop go either way and define the model; the directory opens again at once and holds exactly the acknowledged contents; every background worker exits without the simulated clock having to reach its next timer (slack = 50 simulated ms plus injected disk latency; a worker still alive after two of its longest timer intervals is reported as never exiting); no store descriptor stays open after the cycles."),
 "C18": ("exploration", "§6 C18", "deterministic simulation on the discrete-event clock: triggers placed just above / exactly at / below the statistics a workload produced; merges and fsyncs observed in the I/O log with simulated timestamps",
         "Phase 1 produces a write pattern with background tasks off; phase 2 reopens with policy never/always and triggers set relative to the real per-file statistics (dead bytes or fragmentation just crossed, exactly equal, far above, far below), check intervals 10 ms - 1 h, jitter 0-1 with thread_rng forced to range extremes; then only simulated time passes. Oracles: never => no merge; trigger exceeded => first merge within interval*(1+jitter); not exceeded => no merge within 3 such spans; interval sync => the forced file is the active one, and every client append is followed by a forced sync of its file within one interval plus exactly the time the store's own threads spent waiting for locks and disk in that span (simulated time only passes while threads wait), unless the file stopped being the newest data file first; a second burst of writes and a third round with two client threads writing under injected disk latency (the writer lock is held across simulated time, sync ticks fall into those periods) create the obligations."),
 "C19": ("exploration", "§6 C19", "deterministic simulation: verif_dump bookkeeping vs. independent scan of the files after every operation",
         "After every operation the index and per-file live/dead/dead_bytes counters (verif_dump) are compared with an independent decoder's scan of the shadow files; overflow checks are on in the shadow build so counter underflow panics. A quarter of the runs are concurrent histories (1-3 writer threads, 1-3 reader threads, optionally a merging thread, seeded random / PCT schedules); the same comparison is made once every thread has been joined, with the contents taken from a final scan."),
}

def main():
    props = [json.loads(l) for l in open(os.path.join(VERIF, "properties.jsonl"))]
    checks = []
    for pid, (level, ref, technique, text) in sorted(CHECKS.items()):
        checks.append({
            "property_id": pid,
            "quick_cmd": "./check %s --tier quick" % pid,
            "thorough_cmd": "./check %s --tier thorough" % pid,
            "evidence_file": "/verif/evidence/%s.json" % pid,
            "replay_cmd_template": "./check %s --replay {path}" % pid,
            "engine": "bcsim",
            "level_claimed": {"category": level, "text": text, "design_ref": "DESIGN.md " + ref},
            "level_note": SEQ_NOTE,
            "technique": technique,
        })
    na = []
    NA_REASONS = {
        "C07": "pure function of one byte string (Frame::check/parse): no schedule, clock, I/O, fault or interleaving for a simulator to own; deciding it is input-space search or proof (fuzzing / bounded model checking), a different technique family. See DESIGN.md §7.",
    }
    for p in props:
        if p["id"] not in CHECKS:
            na.append({"property_id": p["id"], "reason": NA_REASONS.get(p["id"], "check under construction in this session (engine not finished yet); see DESIGN.md §6")})
    m = {
        "version": 1,
        "setup_cmd": "./check setup",
        "hooks": {
            "guard": "cargo feature `verif` (off by default)",
            "enable": "generated shadow manifest /verif/sim/shadow/Cargo.toml builds /repo/src/lib.rs with the feature `verif` on and facade crates substituted by dependency renaming",
            "baseline_off_cmd": "cd /repo && cargo test --workspace --no-fail-fast --offline",
            "source_commits": repo_commits(),
            "add_only": True,
        },
        "engines": [{
            "name": "bcsim",
            "path": "/verif/sim",
            "serves_properties": sorted(CHECKS.keys()),
            "kind_free_text": "deterministic simulator (simrt: seeded scheduler over real threads run one at a time, discrete-event clock, executor, TCP model, libc-interposed file system with shadow and fault plan) + harness (generators, oracles, supervisor/worker processes, minimiser, replay)",
        }],
        "checks": checks,
        "not_applicable": na,
        "notes": "Every check rebuilds from /repo's working tree (BITCASK_REPO overrides). VERIF_SEED selects the batch (default 1). Exit 2 = harness error, never a violation.",
    }
    with open(os.path.join(VERIF, "MANIFEST.json"), "w") as f:
        json.dump(m, f, indent=1)
        f.write("\n")

if __name__ == "__main__":
    main()
