#!/bin/bash
# usage: tools/new_refactor_wt.sh <worktree-id> '<area>'
# Creates the scratch worktree /tmp/wt/<worktree-id> of /repo (warm target directory) and the prompt
# /tmp/wt/prompt_<worktree-id>.txt for a fresh sub-agent asked for a behaviour-preserving refactoring.
id=$1; area=$2
mkdir -p /tmp/wt
git -C /repo worktree add -q --detach /tmp/wt/$id HEAD || exit 2
[ -d /repo/target ] && cp -r /repo/target /tmp/wt/$id/target
python3 - "$id" "$area" <<'EOF'
import sys
wid, area = sys.argv[1:3]
t = open('/verif/tools/refactor_prompt_template.txt').read()
t = t.replace('{{', '{').replace('}}', '}').replace('{WT}', '/tmp/wt/' + wid).replace('{AREA}', area)
open('/tmp/wt/prompt_%s.txt' % wid, 'w').write(t)
print('/tmp/wt/prompt_%s.txt' % wid)
EOF
