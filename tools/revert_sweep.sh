#!/bin/bash
# for every `fix:` commit of /repo: revert it alone on top of HEAD in a scratch worktree and run the
# check that found the defect (quick tier): the violation must come back
cd /verif

python3 - <<'PY' > /tmp/wt/revert_list.txt
import json
k=json.load(open('/verif/known_findings.json'))
seen=set()
for e in k:
    c=e.get('commit')
    if c and (c,e['property']) not in seen:
        seen.add((c,e['property'])); print(c, e['property'])
PY
while read commit prop; do
  wt=/tmp/wt/rev_$commit
  git -C /repo worktree add -q --detach $wt HEAD 2>/dev/null || continue
  cp -r /repo/target $wt/target 2>/dev/null
  if git -C $wt revert --no-commit $commit >/dev/null 2>&1; then
    echo "=== revert $commit ($prop)"; tools/try_mutant_wt.sh $wt $prop
  else
    echo "=== revert $commit ($prop): does not revert cleanly on HEAD (later fixes build on it)"
  fi
  git -C /repo worktree remove --force $wt
done < /tmp/wt/revert_list.txt
echo REVERTDONE
