#!/bin/bash
# usage: tools/try_mutant_wt.sh <worktree-with-change-applied> <check> [<check> ...]
# Runs the given checks (quick tier) against a scratch worktree of /repo that has a change applied,
# WITHOUT touching /repo: BITCASK_REPO points the shadow build at the worktree, and the build and
# run happen in a private copy of the simulation workspace (SWEEP_SIM, default /tmp/simsweep, made
# from /verif/sim if absent; refresh it with SWEEP_REFRESH=1 after changing the harness).
# Evidence and replays go to a scratch directory. One line per check.
set -u
WT=$1; shift
SIM=${SWEEP_SIM:-/tmp/simsweep}
OUT=${MUTANT_OUT:-/tmp/mutant_out/$(basename "$WT")}
mkdir -p "$OUT/evidence" "$OUT/replays"
if [ ! -d "$SIM" ] || [ -n "${SWEEP_REFRESH:-}" ]; then
  mkdir -p "$SIM"
  rsync -a --delete --exclude build.log --exclude .build.lock /verif/sim/ "$SIM/"
fi
for c in "$@"; do
  t0=$(date +%s)
  BITCASK_REPO="$WT" BCSIM_SIM_DIR="$SIM" /verif/check "$c" --evidence "$OUT/evidence/$c.json" --replays "$OUT/replays" ${MUTANT_ARGS:-} > "$OUT/$c.log" 2>&1
  rc=$?
  t1=$(date +%s)
  v=$(grep -m1 -E "^violation in run|^HARNESS-ERROR" "$OUT/$c.log" | cut -c1-260)
  echo "$c exit=$rc time=$((t1-t0))s $v"
done
