#!/bin/bash
# usage: tools/try_refactor.sh <patch.diff>
# Applies a (supposedly behaviour-preserving) change to /repo, runs every claimed check's quick
# tier and reports the ones that do not exit 0; restores /repo.
PATCH=$1
OUT=${REFACTOR_OUT:-/tmp/refactor_out}
mkdir -p "$OUT/evidence" "$OUT/replays"
git -C /repo status --short | grep -q . && { echo "refusing: /repo is dirty"; exit 2; }
git -C /repo apply "$PATCH" || { echo "patch does not apply"; exit 2; }
bad=0
for c in C01 C02 C03 C04 C05 C06 C08 C09 C10 C11 C12 C13 C14 C15 C16 C17 C18 C19 C20; do
  /verif/check "$c" --evidence "$OUT/evidence/$c.json" --replays "$OUT/replays" > "$OUT/$c.log" 2>&1
  rc=$?
  if [ $rc -ne 0 ]; then
    bad=1
    echo "$c exit=$rc $(grep -m1 -E '^violation in run|HARNESS-ERROR' "$OUT/$c.log" | cut -c1-300)"
  fi
done
[ $bad -eq 0 ] && echo "all 19 checks quiet"
git -C /repo checkout -- .
git -C /repo status --short
