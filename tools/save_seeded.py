#!/usr/bin/env python3
"""usage: save_seeded.py <worktree> <seeded-id> <property> '<needs>' '<caught by: C01=yes(...),...>' """
import sys, os, shutil, json, subprocess
wt, sid, prop, needs, caught = sys.argv[1:6]
dst = os.path.join('/verif/seeded', sid)
os.makedirs(dst, exist_ok=True)
for f in os.listdir(os.path.join(wt, 'MUTANT')):
    if f.startswith('confirm_') or f.endswith('.log'):
        continue
    src = os.path.join(wt, 'MUTANT', f)
    if os.path.isfile(src) and os.path.getsize(src) < 400_000:
        shutil.copy(src, os.path.join(dst, f))
confirm = open(os.path.join(wt, 'MUTANT', 'CONFIRM.txt')).read() if os.path.exists(os.path.join(wt, 'MUTANT', 'CONFIRM.txt')) else ''
base = subprocess.run(['git', '-C', '/repo', 'log', '--format=%h', '-1'], capture_output=True, text=True).stdout.strip()
meta = {
    "id": sid,
    "breaks_property": prop,
    "needs_to_manifest": needs,
    "base_commit_of_repo": base,
    "written_by": "independent sub-agent given only the property record and a scratch worktree (nothing from /verif)",
    "confirmed_by_me": {
        "how": "tools/confirm_mutant.sh <worktree>: cargo test --offline with the change (44 baseline tests), the demonstration with the change applied and with it reverted",
        "result": confirm.strip().splitlines(),
    },
    "checks_run_against_it": {
        "how": "tools/try_mutant.sh seeded/%s/patch.diff <checks> (git -C /repo apply; ./check <id> quick tier; git -C /repo checkout -- .)" % sid,
        "result": caught,
    },
}
json.dump(meta, open(os.path.join(dst, 'meta.json'), 'w'), indent=1)
print('saved', dst, os.listdir(dst))
