#!/bin/bash
# usage: tools/try_mutant.sh <patch.diff> <check> [<check> ...]
# Applies the patch to /repo, runs the given checks (quick tier, evidence and replays go to a
# scratch directory), prints one line per check, and restores /repo.
set -u
PATCH=$1; shift
OUT=${MUTANT_OUT:-/tmp/mutant_out}
mkdir -p "$OUT/evidence" "$OUT/replays"
git -C /repo status --short | grep -q . && { echo "refusing: /repo is dirty"; exit 2; }
git -C /repo apply "$PATCH" || { echo "patch does not apply"; exit 2; }
for c in "$@"; do
  t0=$(date +%s)
  /verif/check "$c" --evidence "$OUT/evidence/$c.json" --replays "$OUT/replays" ${MUTANT_ARGS:-} > "$OUT/$c.log" 2>&1
  rc=$?
  t1=$(date +%s)
  v=$(grep -m1 -E "^violation in run" "$OUT/$c.log" | cut -c1-260)
  echo "$c exit=$rc time=$((t1-t0))s $v"
done
git -C /repo checkout -- . 
git -C /repo status --short
