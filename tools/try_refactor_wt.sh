#!/bin/bash
# usage: tools/try_refactor_wt.sh <worktree-with-change-applied> [<check> ...]   (default: all 19 claimed checks)
# Runs the quick tier of the checks against a scratch worktree that holds a (supposedly)
# behaviour-preserving change, without touching /repo (see tools/try_mutant_wt.sh), and reports
# every check that does not exit 0.
WT=$1; shift
CHECKS=${*:-C01 C02 C03 C04 C05 C06 C08 C09 C10 C11 C12 C13 C14 C15 C16 C17 C18 C19 C20}
SIM=${SWEEP_SIM:-/tmp/simsweep}
OUT=${REFACTOR_OUT:-/tmp/refactor_out/$(basename "$WT")}
mkdir -p "$OUT/evidence" "$OUT/replays"
[ -d "$SIM" ] || { mkdir -p "$SIM"; rsync -a --exclude build.log --exclude .build.lock /verif/sim/ "$SIM/"; }
bad=0; n=0
for c in $CHECKS; do
  n=$((n+1))
  BITCASK_REPO="$WT" BCSIM_SIM_DIR="$SIM" /verif/check "$c" --evidence "$OUT/evidence/$c.json" --replays "$OUT/replays" > "$OUT/$c.log" 2>&1
  rc=$?
  if [ $rc -ne 0 ]; then
    bad=1
    echo "$c exit=$rc $(grep -m1 -E '^violation in run|HARNESS-ERROR' "$OUT/$c.log" | cut -c1-300)"
  fi
done
[ $bad -eq 0 ] && echo "all $n checks quiet"
