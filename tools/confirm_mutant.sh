#!/bin/bash
# usage: tools/confirm_mutant.sh <worktree>   (the worktree has the change applied and MUTANT/{patch.diff,demo.sh,...})
# Confirms: existing tests pass with the change; demo fails with it and passes without it.
WT=$1
cd "$WT" || exit 2
export CARGO_NET_OFFLINE=true
res="$WT/MUTANT/CONFIRM.txt"
: > "$res"
git diff -- src > /tmp/confirm_$$.diff
if ! diff -q <(git diff -- src) MUTANT/patch.diff >/dev/null 2>&1; then echo "note: working tree diff differs from MUTANT/patch.diff (checking patch.diff applies to HEAD)" >> "$res"; fi
t=$(cargo test --offline 2>&1 | grep -E "^test result" | head -1)
echo "existing tests with change: $t" >> "$res"
if [ -f MUTANT/demo.sh ]; then
  timeout 1200 bash MUTANT/demo.sh > MUTANT/confirm_with.log 2>&1; a=$?
  echo "demo with change: exit $a" >> "$res"
  git apply -R MUTANT/patch.diff || echo "reverse apply failed" >> "$res"
  timeout 1200 bash MUTANT/demo.sh > MUTANT/confirm_without.log 2>&1; b=$?
  echo "demo without change: exit $b" >> "$res"
  git apply MUTANT/patch.diff
else
  echo "no demo.sh" >> "$res"
fi
rm -rf tests 2>/dev/null
cat "$res"
