#!/bin/bash
# usage: tools/new_mutant_wt.sh <worktree-id> <property-id> ['<additional steer>']
# Creates the scratch worktree /tmp/wt/<worktree-id> of /repo (with a warm target directory) and the
# prompt /tmp/wt/prompt_<worktree-id>.txt for a fresh sub-agent (property text only, nothing from /verif
# beyond the property record itself).
id=$1; prop=$2; steer=${3:-}
mkdir -p /tmp/wt
git -C /repo worktree add -q --detach /tmp/wt/$id HEAD || exit 2
[ -d /repo/target ] && cp -r /repo/target /tmp/wt/$id/target
python3 - "$id" "$prop" "$steer" <<'EOF'
import sys, json
wid, prop, steer = sys.argv[1:4]
rec = None
for l in open('/verif/properties.jsonl'):
    r = json.loads(l)
    if r['id'] == prop: rec = r
t = open('/verif/tools/mutant_prompt_template.txt').read()
t = t.replace('{WT}', '/tmp/wt/' + wid).replace('{PROP}', json.dumps(rec, indent=1))
if steer:
    t += '\nAdditional steer (to diversify the set of regressions being collected): ' + steer + '\n'
open('/tmp/wt/prompt_%s.txt' % wid, 'w').write(t)
print('/tmp/wt/prompt_%s.txt' % wid)
EOF
