#!/usr/bin/env python3
"""Rewrites the block between <!-- SEEDED:BEGIN --> and <!-- SEEDED:END --> in DESIGN.md from
seeded/*/meta.json."""
import json, os, glob, re
V = os.path.dirname(os.path.dirname(os.path.abspath(__file__)))
rows = []
for m in sorted(glob.glob(os.path.join(V, 'seeded', '*', 'meta.json'))):
    j = json.load(open(m))
    rows.append("| `%s` | %s | %s | %s |" % (j['id'], j['breaks_property'], j['needs_to_manifest'].replace('|', '/'), j['checks_run_against_it']['result'].replace('|', '/')))
block = "\n".join([
    "<!-- SEEDED:BEGIN -->",
    "| seeded change (`/verif/seeded/<id>/`) | breaks | needs, to manifest | checks run against it (quick tier) |",
    "|---|---|---|---|",
] + rows + ["<!-- SEEDED:END -->"])
p = os.path.join(V, 'DESIGN.md')
s = open(p).read()
if '<!-- SEEDED:BEGIN -->' in s:
    s = re.sub(r'<!-- SEEDED:BEGIN -->.*<!-- SEEDED:END -->', lambda _: block, s, flags=re.S)
else:
    s += '''
### 14.5 Seeded changes and which checks catch them

Each change below was written by a fresh sub-agent that saw only the text of one property and its
own scratch worktree of /repo (nothing from /verif). I confirmed each one myself in its worktree
(`tools/confirm_mutant.sh`: the 44 baseline tests pass with the change; the agent's
demonstration fails with the change and passes with it reverted) before keeping it under
`/verif/seeded/<id>/` (patch.diff, the demonstration, meta.json). To run the checks against one:
`tools/try_mutant.sh seeded/<id>/patch.diff <checks>` (applies it to /repo, runs the quick tier,
restores /repo). `tools/sweep_seeded.sh` runs every seeded change against the check of the
property it breaks and writes `seeded/RESULTS.md`. Where a check missed a change at first, the
entry says what was strengthened; nothing was special-cased for a particular change: the
strengthening is always a fault kind, an input class, an instant of observation or an oracle
clause the property had called for and the check lacked.

''' + block + '\n'
open(p, 'w').write(s)
print(len(rows), 'rows')
