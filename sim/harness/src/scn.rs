//! Scenario data model: everything a simulated run does is written down explicitly here, so a
//! scenario can be stored in a replay file, shrunk by the minimiser and re-run exactly.

use serde::{Deserialize, Serialize};

#[derive(Clone, Debug, Serialize, Deserialize, PartialEq)]
pub enum Strat {
    Fifo,
    Random(u32),
    Pct(u32, u64),
}

#[derive(Clone, Debug, Serialize, Deserialize, PartialEq)]
pub struct SimParams {
    pub strat: Strat,
    pub num_cpus: usize,
    /// legal-but-unusual I/O (never allowed to change a result)
    pub short_write_pm: u32,
    pub eintr_pm: u32,
    pub latency_pm: u32,
    pub max_latency_us: u64,
    /// per-mille chance that a `thread_rng` draw is an extreme value
    pub jitter_extreme_pm: u32,
    /// timers fire up to this many microseconds late (0 = exactly on time)
    #[serde(default)]
    pub timer_late_us: u64,
}

impl Default for SimParams {
    fn default() -> Self {
        SimParams { strat: Strat::Fifo, num_cpus: 1, short_write_pm: 0, eintr_pm: 0, latency_pm: 0, max_latency_us: 0, jitter_extreme_pm: 0, timer_late_us: 0 }
    }
}

#[derive(Clone, Debug, Serialize, Deserialize, PartialEq)]
pub enum SyncCfg {
    None,
    Always,
    IntervalMs(u64),
}

#[derive(Clone, Debug, Serialize, Deserialize, PartialEq)]
pub struct StoreCfg {
    pub max_file_size: u64,
    pub cache: usize,
    pub pool: usize,
    pub sync: SyncCfg,
    /// false = policy never
    pub merge_always: bool,
    pub check_interval_ms: u64,
    pub jitter: f64,
    pub trig_frag: f64,
    pub trig_dead: u64,
    pub thr_frag: f64,
    pub thr_dead: u64,
    pub thr_small: u64,
    /// merge policy "window" (hours of the day, inclusive) instead of always / never
    #[serde(default)]
    pub merge_window: Option<(u32, u32)>,
}

impl Default for StoreCfg {
    fn default() -> Self {
        StoreCfg {
            max_file_size: 1 << 20,
            cache: 256,
            pool: 2,
            sync: SyncCfg::None,
            merge_always: false,
            check_interval_ms: 18000,
            jitter: 0.3,
            trig_frag: 0.6,
            trig_dead: 512 << 20,
            thr_frag: 0.4,
            thr_dead: 128 << 20,
            thr_small: 10 << 20,
            merge_window: None,
        }
    }
}

/// A value is generated from (tag, len): values of length >= 8 start with the tag and are
/// therefore unique per tag.
#[derive(Clone, Copy, Debug, Serialize, Deserialize, PartialEq, Eq)]
pub struct Val {
    pub tag: u32,
    pub len: u32,
}

impl Val {
    pub fn bytes(&self) -> Vec<u8> {
        let mut out = Vec::with_capacity(self.len as usize);
        let mut x = (self.tag as u64) << 32 | 0x9E37_79B9;
        if self.len >= 8 {
            out.extend_from_slice(&(self.tag as u64 | 0x5641_4c00_0000_0000).to_le_bytes());
        }
        while out.len() < self.len as usize {
            let v = simrt::rng::splitmix64(&mut x).to_le_bytes();
            let n = (self.len as usize - out.len()).min(8);
            out.extend_from_slice(&v[..n]);
        }
        // make sure CR, LF, NUL occur in longer values
        if out.len() >= 16 {
            out[9] = b'\r';
            out[10] = b'\n';
            out[11] = 0;
        }
        out
    }
}

#[derive(Clone, Debug, Serialize, Deserialize, PartialEq)]
pub enum Op {
    Set(usize, Val),
    Get(usize),
    Del(usize),
    Merge,
    /// close and reopen; `true` = wait for the old background thread to be gone first
    Reopen(bool),
    /// let this much simulated time pass
    Pass(u64),
    Sync,
    /// re-tune merge thresholds from the live per-file statistics so that a strict subset of the
    /// files is selected by the next merge (argument picks which subset), then reopen is NOT
    /// needed: thresholds are part of the open configuration, so this is "close, reopen with
    /// new thresholds".
    Retune(u32),
    /// wall-clock jump in seconds (may be negative)
    ClockJump(i64),
    /// drop the store object (handles survive); later operations go through a stale handle
    Close,
}

#[derive(Clone, Debug, Serialize, Deserialize, PartialEq)]
pub struct StoreScn {
    pub cfg: StoreCfg,
    /// key universe, hex-free: raw bytes
    pub keys: Vec<Vec<u8>>,
    /// thread 0 is the main sequence; further entries are extra client threads (C04, C17)
    pub threads: Vec<Vec<Op>>,
    /// C20: fail the n-th faultable call (1-based), errno, mode (0 clean, 1 short-then-error)
    pub fault: Option<(u64, i32, u8)>,
    pub fault_reads: bool,
    /// C03/C09: sample at most this many crash points (0 = all)
    pub max_crash_points: u32,
    /// C17: at which main-thread op index the store object is dropped is encoded in ops
    pub extra: u64,
}

#[derive(Clone, Debug, Serialize, Deserialize, PartialEq)]
pub enum Body {
    Store(StoreScn),
    Net(crate::netscn::NetScn),
}

#[derive(Clone, Debug, Serialize, Deserialize, PartialEq)]
pub struct Scenario {
    pub check: String,
    pub seed: u64,
    pub sim: SimParams,
    pub body: Body,
}

#[derive(Clone, Debug, Serialize, Deserialize, PartialEq)]
pub struct Violation {
    /// stable class name, e.g. "get-mismatch"
    pub class: String,
    /// human-readable specifics (deterministic text)
    pub detail: String,
    /// diagnosis signature for known-finding matching ("" = undiagnosed)
    pub signature: String,
}

#[derive(Clone, Debug, Default, Serialize, Deserialize)]
pub struct RunOut {
    pub violations: Vec<Violation>,
    /// number of evaluated cases inside this run (1, or the number of crash images / fault positions)
    pub evaluations: u64,
    pub nontrivial: bool,
    /// coverage signatures reached (hashes)
    pub sigs: Vec<u64>,
    pub probes: std::collections::BTreeMap<String, u64>,
    pub faults: std::collections::BTreeMap<String, u64>,
    pub sim_ns: u64,
    pub steps: u64,
    pub switches: u64,
    pub trace_hash: u64,
    /// hash over everything observable (schedule, I/O log digests, results): determinism test
    pub obs_hash: u64,
    pub sample: Option<serde_json::Value>,
    /// the exact sub-scenario (fault position, crash point) that failed, for minimisation/replay
    #[serde(default)]
    pub pinned: Option<Box<Scenario>>,
}
