//! Linearizability checker for a single register with write / read / delete (Wing–Gong search
//! with memoisation). Histories are split per key by the caller (linearizability is local).

use std::collections::HashSet;

#[derive(Clone, Debug, PartialEq, Eq)]
pub enum Kind {
    Write(u32),
    Read(Option<u32>),
    /// delete returning whether the key was present
    Del(bool),
}

#[derive(Clone, Debug)]
pub struct LOp {
    pub inv: u64,
    pub ret: u64,
    pub kind: Kind,
    /// free text for diagnostics
    pub who: String,
    /// issuing process (connection) and its position in that process's own order: operations
    /// of one process are linearized in that order even where their intervals overlap
    /// (pipelined requests). `None`: only real time orders the operation.
    pub proc_seq: Option<(u32, u32)>,
}

pub fn linearizable(ops: &[LOp], init: Option<u32>) -> bool {
    let n = ops.len();
    assert!(n <= 60, "history too long for the checker");
    if n == 0 {
        return true;
    }
    let full: u64 = if n == 64 { u64::MAX } else { (1u64 << n) - 1 };
    // program order: the operations that must be linearized before operation i
    let pred: Vec<u64> = (0..n)
        .map(|i| match ops[i].proc_seq {
            Some((p, q)) => (0..n).filter(|j| matches!(ops[*j].proc_seq, Some((p2, q2)) if p2 == p && q2 < q)).fold(0u64, |m, j| m | (1 << j)),
            None => 0,
        })
        .collect();
    let mut memo: HashSet<(u64, Option<u32>)> = HashSet::new();
    // iterative DFS
    let mut stack: Vec<(u64, Option<u32>, usize)> = vec![(0, init, 0)];
    while let Some((mask, state, next)) = stack.pop() {
        if mask == full {
            return true;
        }
        if next == 0 && memo.contains(&(mask, state)) {
            continue;
        }
        let mut minret = u64::MAX;
        for (j, o) in ops.iter().enumerate() {
            if mask & (1 << j) == 0 && o.ret < minret {
                minret = o.ret;
            }
        }
        let mut pushed = false;
        let mut i = next;
        while i < n {
            if mask & (1 << i) == 0 && ops[i].inv < minret && pred[i] & !mask == 0 {
                let (ok, ns) = match &ops[i].kind {
                    Kind::Write(v) => (true, Some(*v)),
                    Kind::Read(r) => (*r == state, state),
                    Kind::Del(b) => (*b == state.is_some(), None),
                };
                if ok {
                    // come back to this frame later at i+1, go deeper first
                    stack.push((mask, state, i + 1));
                    stack.push((mask | (1 << i), ns, 0));
                    pushed = true;
                    break;
                }
            }
            i += 1;
        }
        if !pushed {
            memo.insert((mask, state));
        }
    }
    false
}

/// All keys together. Linearizability is local (each key can be checked alone) only as far as
/// REAL TIME orders the operations; the additional order of a connection's own pipelined requests
/// relates operations on different keys, so a history can pass key by key and still have no
/// single order (a batch that reads key a, then key b written later by another client, then key a
/// again from a memo). `ops[i].0` is the key index. Returns `None` when the search exceeds
/// `budget` states (inconclusive), otherwise whether a linearization exists.
pub fn linearizable_all_keys(ops: &[(usize, LOp)], nkeys: usize, budget: usize) -> Option<bool> {
    let n = ops.len();
    if n == 0 {
        return Some(true);
    }
    if n > 60 {
        return None;
    }
    let full: u64 = (1u64 << n) - 1;
    let pred: Vec<u64> = (0..n)
        .map(|i| match ops[i].1.proc_seq {
            Some((p, q)) => (0..n).filter(|j| matches!(ops[*j].1.proc_seq, Some((p2, q2)) if p2 == p && q2 < q)).fold(0u64, |m, j| m | (1 << j)),
            None => 0,
        })
        .collect();
    let mut memo: HashSet<(u64, Vec<Option<u32>>)> = HashSet::new();
    let mut stack: Vec<(u64, Vec<Option<u32>>, usize)> = vec![(0, vec![None; nkeys], 0)];
    let mut visited = 0usize;
    while let Some((mask, state, next)) = stack.pop() {
        if mask == full {
            return Some(true);
        }
        if next == 0 {
            if memo.contains(&(mask, state.clone())) {
                continue;
            }
            visited += 1;
            if visited > budget {
                return None;
            }
        }
        let mut minret = u64::MAX;
        for (j, o) in ops.iter().enumerate() {
            if mask & (1 << j) == 0 && o.1.ret < minret {
                minret = o.1.ret;
            }
        }
        let mut pushed = false;
        let mut i = next;
        while i < n {
            let (k, o) = (&ops[i].0, &ops[i].1);
            if mask & (1 << i) == 0 && o.inv < minret && pred[i] & !mask == 0 {
                let cur = state[*k];
                let (ok, nv) = match &o.kind {
                    Kind::Write(v) => (true, Some(*v)),
                    Kind::Read(r) => (*r == cur, cur),
                    Kind::Del(b) => (*b == cur.is_some(), None),
                };
                if ok {
                    let mut ns = state.clone();
                    ns[*k] = nv;
                    stack.push((mask, state.clone(), i + 1));
                    stack.push((mask | (1 << i), ns, 0));
                    pushed = true;
                    break;
                }
            }
            i += 1;
        }
        if !pushed {
            memo.insert((mask, state));
        }
    }
    Some(false)
}

#[cfg(test)]
mod tests {
    use super::*;
    fn op(inv: u64, ret: u64, kind: Kind) -> LOp {
        LOp { inv, ret, kind, who: String::new(), proc_seq: None }
    }
    #[test]
    fn program_order_of_pipelined_requests() {
        let p = |inv, ret, kind, q| LOp { inv, ret, kind, who: String::new(), proc_seq: Some((1, q)) };
        // writes 1 then 2 by another process; one connection pipelines two reads that overlap
        // in time: seeing 2 and then 1 goes backwards
        let w = [op(1, 2, Kind::Write(1)), op(5, 6, Kind::Write(2))];
        let mut h = w.to_vec();
        h.push(p(3, 20, Kind::Read(Some(2)), 0));
        h.push(p(4, 21, Kind::Read(Some(1)), 1));
        assert!(!linearizable(&h, None));
        let mut h = w.to_vec();
        h.push(p(3, 20, Kind::Read(Some(1)), 0));
        h.push(p(4, 21, Kind::Read(Some(2)), 1));
        assert!(linearizable(&h, None));
        // without the program order the first history would pass
        let mut h = w.to_vec();
        h.push(op(3, 20, Kind::Read(Some(2))));
        h.push(op(4, 21, Kind::Read(Some(1))));
        assert!(linearizable(&h, None));
    }
    #[test]
    fn memo_across_keys() {
        // B: SET a 2 [5,6]; SET b 9 [7,8] (after a's ack). A pipelines GET a, GET b, GET a (all
        // invoked at 1..3, returned at 20..22) and gets 1, 9, 1: every key alone is fine, all
        // keys together with A's own order are not
        let p = |inv, ret, kind, q| LOp { inv, ret, kind, who: String::new(), proc_seq: Some((1, q)) };
        let h = vec![
            (0usize, op(0, 1, Kind::Write(1))),
            (0, LOp { proc_seq: Some((2, 0)), ..op(5, 6, Kind::Write(2)) }),
            (1, LOp { proc_seq: Some((2, 1)), ..op(7, 8, Kind::Write(9)) }),
            (0, p(2, 20, Kind::Read(Some(1)), 0)),
            (1, p(3, 21, Kind::Read(Some(9)), 1)),
            (0, p(4, 22, Kind::Read(Some(1)), 2)),
        ];
        assert_eq!(linearizable_all_keys(&h, 2, 1_000_000), Some(false));
        for k in 0..2 {
            let one: Vec<LOp> = h.iter().filter(|(kk, _)| *kk == k).map(|(_, o)| o.clone()).collect();
            assert!(linearizable(&one, None));
        }
        let mut ok = h.clone();
        ok[5].1.kind = Kind::Read(Some(2));
        assert_eq!(linearizable_all_keys(&ok, 2, 1_000_000), Some(true));
    }
    #[test]
    fn simple() {
        // write 1 then read 1: ok
        assert!(linearizable(&[op(1, 2, Kind::Write(1)), op(3, 4, Kind::Read(Some(1)))], None));
        // read of a value never written
        assert!(!linearizable(&[op(1, 2, Kind::Write(1)), op(3, 4, Kind::Read(Some(2)))], None));
        // stale read after overwrite completed
        assert!(!linearizable(&[op(1, 2, Kind::Write(1)), op(3, 4, Kind::Write(2)), op(5, 6, Kind::Read(Some(1)))], None));
        // concurrent write and read may go either way
        assert!(linearizable(&[op(1, 5, Kind::Write(1)), op(2, 3, Kind::Read(None))], None));
        assert!(linearizable(&[op(1, 5, Kind::Write(1)), op(2, 3, Kind::Read(Some(1)))], None));
        // delete result
        assert!(!linearizable(&[op(1, 2, Kind::Del(true))], None));
        assert!(linearizable(&[op(1, 2, Kind::Write(1)), op(3, 4, Kind::Del(true)), op(5, 6, Kind::Read(None))], None));
    }
}
