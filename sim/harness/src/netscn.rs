//! Network-level scenarios: the real server on the simulated runtime and TCP model, driven by
//! scripted clients; and the connection-only scenario of C08.
use serde::{Deserialize, Serialize};

use crate::scn::{StoreCfg, Val};

#[derive(Clone, Debug, Serialize, Deserialize, PartialEq)]
pub struct NetParams {
    pub capacity: usize,
    pub max_delay_us: u64,
    /// 0 one byte per read, 1 at most `mss` bytes, 2 everything arrived, 3 random per read
    pub read_mode: u8,
    pub mss: usize,
    pub spurious_pm: u32,
    pub accept_err_pm: u32,
    pub backlog: usize,
    pub write_chunk: usize,
}

impl Default for NetParams {
    fn default() -> Self {
        NetParams { capacity: 64 * 1024, max_delay_us: 0, read_mode: 2, mss: 1460, spurious_pm: 0, accept_err_pm: 0, backlog: 128, write_chunk: 0 }
    }
}

#[derive(Clone, Debug, Serialize, Deserialize, PartialEq)]
pub enum Req {
    Set(usize, Val),
    Get(usize),
    Del(Vec<usize>),
}

#[derive(Clone, Debug, Serialize, Deserialize, PartialEq)]
pub enum CStep {
    /// queue a well-formed request
    Send(Req),
    /// queue raw bytes (hostile or partial input)
    SendRaw(Vec<u8>),
    /// send a strict prefix of a well-formed request (cut at this per-mille of its encoding),
    /// wait until every earlier request has been answered, then send the rest: replies must not
    /// depend on where the byte stream is cut, nor on a later request being complete
    SendCut(Req, u32),
    /// pump until at most this many requests are unanswered
    Await(usize),
    /// pump until everything queued has been handed to the transport
    Flush,
    /// let simulated time pass (microseconds)
    Pause(u64),
    /// orderly close of the sending direction
    HalfClose,
    /// close the connection
    Close,
    /// abortive close
    Reset,
    /// close the connection, unless the server has already ended its side (the client has seen
    /// end of stream or a reset): then the client leaves its socket open for the rest of the run.
    /// A connection that the server has ended has ended; its slot must not wait for the client
    CloseUnlessEnded,
    /// keep reading until end of stream or reset
    ReadToEof,
    /// keep reading until end of stream, reset, or this many microseconds have passed
    ReadFor(u64),
    /// C15: make this connection's handler panic on its next command
    ArmPanic,
    /// C15: make the store fail this connection's next command
    ArmStoreError,
    /// wait until the harness signals that shutdown has been fired (C16)
    WaitShutdown,
    /// keep sending a few bytes of an unfinished request every `gap_us` microseconds for
    /// `total_us` microseconds of simulated time, or until the connection is dead: a client that
    /// never goes quiet (a retry loop, a slow upload)
    Dribble { total_us: u64, gap_us: u64 },
}

#[derive(Clone, Debug, Serialize, Deserialize, PartialEq)]
pub struct ClientScript {
    pub start_us: u64,
    /// 0 whole buffer per write, 1 one byte per write, 2 random pieces of at most `chunk_n`
    pub chunk_mode: u8,
    pub chunk_n: usize,
    pub chunk_pause_us: u64,
    pub hostile: bool,
    pub steps: Vec<CStep>,
}

#[derive(Clone, Debug, Serialize, Deserialize, PartialEq)]
pub enum FrameSpec {
    Simple(String),
    Error(String),
    Int(i64),
    Bulk(Val),
    BulkRaw(Vec<u8>),
    Null,
    Array(Vec<FrameSpec>),
}

#[derive(Clone, Debug, Serialize, Deserialize, PartialEq)]
pub struct ConnScn {
    pub frames: Vec<FrameSpec>,
    /// None: the stream ends cleanly after the last frame; Some(n): it ends n bytes before the
    /// end of the encoding (inside a frame)
    pub cut_before_end: Option<usize>,
    /// the writer side stalls after this many bytes until the reader is quiescent (prefix probe)
    pub stall_at: Option<usize>,
}

#[derive(Clone, Debug, Serialize, Deserialize, PartialEq)]
pub struct NetScn {
    pub cfg: StoreCfg,
    pub net: NetParams,
    pub workers: usize,
    pub max_conn: usize,
    pub keys: Vec<String>,
    pub clients: Vec<ClientScript>,
    /// fire the shutdown signal this many microseconds after the clients were started
    pub shutdown_us: Option<u64>,
    /// fire the shutdown signal at this global scheduling step instead (C16)
    pub shutdown_step: Option<u64>,
    /// a harness thread calling verif_merge in a loop this many times
    pub merges: u32,
    pub conn: Option<ConnScn>,
    pub min_backoff_ms: u64,
    pub max_backoff_ms: u64,
}
