//! Network-level scenarios (server, connection). Filled in by net.rs.
use serde::{Deserialize, Serialize};

#[derive(Clone, Debug, Serialize, Deserialize, PartialEq)]
pub struct NetScn {
    pub placeholder: u32,
}
