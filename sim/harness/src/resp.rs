//! Independent RESP request encoder and reply decoder (the repository's parser is never its own
//! oracle).

#[derive(Clone, Debug, PartialEq, Eq)]
pub enum Reply {
    Simple(String),
    Error(String),
    Int(i64),
    Bulk(Vec<u8>),
    Null,
    Array(Vec<Reply>),
}

pub fn bulk(out: &mut Vec<u8>, b: &[u8]) {
    out.extend_from_slice(format!("${}\r\n", b.len()).as_bytes());
    out.extend_from_slice(b);
    out.extend_from_slice(b"\r\n");
}

pub fn cmd(parts: &[&[u8]]) -> Vec<u8> {
    let mut out = Vec::new();
    out.extend_from_slice(format!("*{}\r\n", parts.len()).as_bytes());
    for p in parts {
        bulk(&mut out, p);
    }
    out
}

pub enum Parse {
    /// a complete reply and the number of bytes it took
    Done(Reply, usize),
    Incomplete,
    Malformed(String),
}

fn line(b: &[u8], at: usize) -> Option<(usize, usize)> {
    // returns (end of content, start of next) for a CRLF-terminated line starting at `at`
    let mut i = at;
    while i + 1 < b.len() {
        if b[i] == b'\r' && b[i + 1] == b'\n' {
            return Some((i, i + 2));
        }
        i += 1;
    }
    None
}

pub fn parse(b: &[u8]) -> Parse {
    match parse_at(b, 0) {
        Ok(Some((r, n))) => Parse::Done(r, n),
        Ok(None) => Parse::Incomplete,
        Err(e) => Parse::Malformed(e),
    }
}

fn parse_at(b: &[u8], at: usize) -> Result<Option<(Reply, usize)>, String> {
    if at >= b.len() {
        return Ok(None);
    }
    let t = b[at];
    match t {
        b'+' | b'-' | b':' => {
            let (e, n) = match line(b, at + 1) {
                Some(x) => x,
                None => return Ok(None),
            };
            let content = &b[at + 1..e];
            match t {
                b'+' => Ok(Some((Reply::Simple(String::from_utf8_lossy(content).into_owned()), n))),
                b'-' => Ok(Some((Reply::Error(String::from_utf8_lossy(content).into_owned()), n))),
                _ => {
                    let s = std::str::from_utf8(content).map_err(|_| "integer not utf8".to_string())?;
                    let v: i64 = s.parse().map_err(|_| format!("bad integer {:?}", s))?;
                    Ok(Some((Reply::Int(v), n)))
                }
            }
        }
        b'$' => {
            let (e, n) = match line(b, at + 1) {
                Some(x) => x,
                None => return Ok(None),
            };
            let s = std::str::from_utf8(&b[at + 1..e]).map_err(|_| "length not utf8".to_string())?;
            let len: i64 = s.parse().map_err(|_| format!("bad bulk length {:?}", s))?;
            if len == -1 {
                return Ok(Some((Reply::Null, n)));
            }
            if len < 0 {
                return Err(format!("negative bulk length {}", len));
            }
            let len = len as usize;
            if b.len() < n + len + 2 {
                return Ok(None);
            }
            if &b[n + len..n + len + 2] != b"\r\n" {
                return Err("bulk string not terminated by CRLF".into());
            }
            Ok(Some((Reply::Bulk(b[n..n + len].to_vec()), n + len + 2)))
        }
        b'*' => {
            let (e, mut n) = match line(b, at + 1) {
                Some(x) => x,
                None => return Ok(None),
            };
            let s = std::str::from_utf8(&b[at + 1..e]).map_err(|_| "length not utf8".to_string())?;
            let len: i64 = s.parse().map_err(|_| format!("bad array length {:?}", s))?;
            if len < 0 {
                return Err("negative array length".into());
            }
            let mut items = Vec::new();
            for _ in 0..len {
                match parse_at(b, n)? {
                    Some((r, m)) => {
                        items.push(r);
                        n = m;
                    }
                    None => return Ok(None),
                }
            }
            Ok(Some((Reply::Array(items), n)))
        }
        other => Err(format!("unexpected type byte {:#x}", other)),
    }
}

pub fn show(r: &Reply) -> String {
    match r {
        Reply::Simple(s) => format!("+{}", s),
        Reply::Error(s) => format!("-{}", s),
        Reply::Int(i) => format!(":{}", i),
        Reply::Bulk(b) => format!("${}", crate::store::hex(b)),
        Reply::Null => "$-1".into(),
        Reply::Array(a) => format!("*[{}]", a.iter().map(show).collect::<Vec<_>>().join(",")),
    }
}
