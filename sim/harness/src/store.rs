//! Store-level simulation engine: runs a `StoreScn` against the real store on the simulated
//! disk and evaluates the oracles of the storage properties.

use std::collections::{BTreeMap, BTreeSet};

use bitcask::storage::bitcask as bc;
use bitcask::storage::KeyValueStorage;
use bytes::Bytes;
use simrt::fsim::{self, IoOp};
use simrt::rng::{fnv1a, mix};
use simrt::Sim;

use crate::scan::{self, DirImage};
use crate::scn::*;

pub type Model = BTreeMap<Vec<u8>, Vec<u8>>;

/// The merge policy enum is private to the crate; it is chosen through serde, the way the
/// server's configuration file does it, and everything else through the public builder.
pub fn build_conf(cfg: &StoreCfg, path: &str) -> bc::Config {
    let json = match cfg.merge_window {
        Some((start, end)) => serde_json::json!({ "merge": { "policy": { "window": { "start": start, "end": end } } } }),
        None => serde_json::json!({ "merge": { "policy": if cfg.merge_always { "always" } else { "never" } } }),
    };
    let mut c: bc::Config = serde_json::from_value(json).expect("policy config");
    c.path(path)
        .concurrency(cfg.pool)
        .readers_cache_size(cfg.cache)
        .max_file_size(cfg.max_file_size)
        .sync(match cfg.sync {
            SyncCfg::None => bc::SyncStrategy::None,
            SyncCfg::Always => bc::SyncStrategy::Always,
            SyncCfg::IntervalMs(d) => bc::SyncStrategy::IntervalMs(d),
        })
        .merge_trigger_fragmentation(cfg.trig_frag)
        .merge_trigger_dead_bytes(cfg.trig_dead)
        .merge_threshold_fragmentation(cfg.thr_frag)
        .merge_threshold_dead_bytes(cfg.thr_dead)
        .merge_threshold_small_file(cfg.thr_small)
        .merge_check_interval_ms(cfg.check_interval_ms)
        .merge_check_jitter(cfg.jitter);
    c
}

pub fn hex(b: &[u8]) -> String {
    if b.len() <= 24 {
        let printable = b.iter().all(|c| c.is_ascii_graphic());
        if printable && !b.is_empty() {
            return format!("'{}'", String::from_utf8_lossy(b));
        }
        let mut s = String::from("x");
        for c in b {
            s.push_str(&format!("{:02x}", c));
        }
        s
    } else {
        format!("[{}B #{:08x}]", b.len(), fnv1a(b) as u32)
    }
}

pub fn hexo(b: &Option<Vec<u8>>) -> String {
    match b {
        Some(v) => hex(v),
        None => "nil".into(),
    }
}

pub struct Ctx {
    pub sim: &'static Sim,
    pub me: usize,
    pub root: String,
    pub check: String,
    pub out: RunOut,
    pub obs: u64,
    pub dir_counter: u32,
}

impl Ctx {
    pub fn new(check: &str, root: &str) -> Ctx {
        let (sim, me) = simrt::current().expect("Ctx::new outside sim");
        fsim::set_root(sim, root);
        Ctx { sim, me, root: root.to_string(), check: check.to_string(), out: RunOut::default(), obs: 0x0b5e_55ed, dir_counter: 0 }
    }

    pub fn viol(&mut self, class: &str, detail: String, signature: &str) {
        if self.out.violations.len() < 8 {
            self.out.violations.push(Violation { class: class.to_string(), detail, signature: signature.to_string() });
        }
    }

    pub fn observe(&mut self, x: u64) {
        self.obs = mix(self.obs, x);
    }

    pub fn observe_bytes(&mut self, b: &[u8]) {
        self.obs = mix(self.obs, fnv1a(b));
    }

    pub fn sig(&mut self, s: u64) {
        self.out.sigs.push(s);
    }

    pub fn new_dir(&mut self, prefix: &str) -> String {
        self.dir_counter += 1;
        let rel = format!("{}{}", prefix, self.dir_counter);
        let abs = format!("{}/{}", self.root, rel);
        simrt::untracked(|| std::fs::create_dir_all(&abs).expect("mkdir"));
        rel
    }

    pub fn abs(&self, rel: &str) -> String {
        format!("{}/{}", self.root, rel)
    }

    /// Let every other runnable thread run until it blocks or finishes; no simulated time passes.
    pub fn settle(&self) {
        let now = self.sim.now_ns();
        self.sim.wait_quiescent(self.me, now);
    }

    /// Wait until every other simulated thread (background threads of closed stores and their
    /// blocking children) has exited; simulated time may pass.
    pub fn join_others(&self) {
        if self.sim.abandoned.load(std::sync::atomic::Ordering::SeqCst) {
            return;
        }
        self.sim.join_all_others(self.me);
    }

    /// A verdict has been reached and some simulated thread will never finish: stop waiting for
    /// threads; the worker process reports this run and is then replaced.
    pub fn abandon(&self) {
        self.sim.abandoned.store(true, std::sync::atomic::Ordering::SeqCst);
    }

    pub fn finish(mut self) -> RunOut {
        let st = self.sim.stats();
        self.out.sim_ns = st.now_ns;
        self.out.steps = st.steps;
        self.out.switches = st.switches;
        self.out.trace_hash = st.trace_hash;
        for (k, v) in self.sim.probes_snapshot() {
            *self.out.probes.entry(k.to_string()).or_insert(0) += v;
        }
        let (fired, legal, log_hash) = fsim::with_fs(self.sim, |fs| {
            let mut h = 0x10u64;
            for r in &fs.log {
                // the order in which a dropped reader cache closes its descriptors follows the
                // lru crate's randomly seeded hash map; closes are not scheduling points and no
                // property depends on them
                if r.op == IoOp::Close {
                    continue;
                }
                // descriptor numbers are process state, not behaviour: only success/failure counts
                let res = match r.op {
                    IoOp::Create | IoOp::OpenRead | IoOp::OpenWriteExisting => (r.res >= 0) as u64,
                    _ => r.res as u64,
                };
                h = mix(h, mix(r.seq, mix(r.path as u64, mix(r.op as u64, mix(r.b, res)))));
            }
            (fs.fired.len() as u64, fs.legal_fired.clone(), h)
        });
        if fired > 0 {
            *self.out.faults.entry("injected_failure".into()).or_insert(0) += fired;
        }
        for (k, v) in legal {
            *self.out.faults.entry(k.to_string()).or_insert(0) += v;
        }
        for (k, v) in simrt::net::counters(self.sim) {
            *self.out.faults.entry(format!("net_{}", k)).or_insert(0) += v;
        }
        if std::env::var("BCSIM_DEBUG_HASH").is_ok() {
            eprintln!("obs components: results {:x} iolog {:x} trace {:x} now {} steps {}", self.obs, log_hash, st.trace_hash, st.now_ns, st.steps);
        }
        self.obs = mix(self.obs, log_hash);
        self.obs = mix(self.obs, st.trace_hash);
        self.obs = mix(self.obs, st.now_ns);
        self.out.obs_hash = self.obs;
        if self.out.evaluations == 0 {
            self.out.evaluations = 1;
        }
        self.out
    }
}

pub struct Store {
    pub kv: Option<bc::Bitcask>,
    pub h: bc::Handle,
    pub rel: String,
    pub cfg: StoreCfg,
}

pub fn open_store(ctx: &Ctx, rel: &str, cfg: &StoreCfg) -> Result<Store, String> {
    let conf = build_conf(cfg, &ctx.abs(rel));
    match std::panic::catch_unwind(std::panic::AssertUnwindSafe(|| conf.open())) {
        Ok(Ok(kv)) => {
            let h = kv.get_handle();
            Ok(Store { kv: Some(kv), h, rel: rel.to_string(), cfg: cfg.clone() })
        }
        Ok(Err(e)) => Err(format!("{}", e)),
        Err(p) => Err(format!("panic({})", panic_msg(&p))),
    }
}

/// Contents of directory `rel` after I/O record `k` (u64::MAX = now), from the shadow.
pub fn dir_image(sim: &Sim, rel: &str, k: u64) -> DirImage {
    fsim::with_fs(sim, |fs| {
        let mut d = DirImage::new();
        for (name, len, _synced, inc) in fs.image_at(rel, k) {
            d.insert(name, fs.incs[inc].data[..len as usize].to_vec());
        }
        d
    })
}

pub fn io_seq(sim: &Sim) -> u64 {
    fsim::with_fs(sim, |fs| fs.seq)
}

pub fn data_total(d: &DirImage) -> u64 {
    d.iter().filter(|(n, _)| n.ends_with(".data")).map(|(_, b)| b.len() as u64).sum()
}

/// Write `img` into a fresh directory (untracked) and register the files with the shadow.
pub fn materialise(ctx: &mut Ctx, prefix: &str, img: &DirImage, synced: Option<&BTreeMap<String, u64>>) -> String {
    let rel = ctx.new_dir(prefix);
    let abs = ctx.abs(&rel);
    simrt::untracked(|| {
        for (name, bytes) in img {
            std::fs::write(format!("{}/{}", abs, name), bytes).expect("write image file");
        }
    });
    fsim::with_fs(ctx.sim, |fs| {
        for (name, bytes) in img {
            let s = synced.and_then(|m| m.get(name).copied()).unwrap_or(bytes.len() as u64);
            fs.adopt(&format!("{}/{}", rel, name), bytes.clone(), s);
        }
    });
    rel
}

pub fn remove_dir(ctx: &Ctx, rel: &str) {
    let abs = ctx.abs(rel);
    simrt::untracked(|| {
        let _ = std::fs::remove_dir_all(&abs);
    });
}

pub fn get(h: &bc::Handle, k: &[u8]) -> Result<Option<Vec<u8>>, String> {
    match std::panic::catch_unwind(std::panic::AssertUnwindSafe(|| h.get(Bytes::copy_from_slice(k)))) {
        Ok(Ok(v)) => Ok(v.map(|b| b.to_vec())),
        Ok(Err(e)) => Err(format!("Err({})", e)),
        Err(p) => Err(format!("panic({})", panic_msg(&p))),
    }
}

pub fn set(h: &bc::Handle, k: &[u8], v: Vec<u8>) -> Result<(), String> {
    match std::panic::catch_unwind(std::panic::AssertUnwindSafe(|| h.set(Bytes::copy_from_slice(k), Bytes::from(v)))) {
        Ok(Ok(())) => Ok(()),
        Ok(Err(e)) => Err(format!("Err({})", e)),
        Err(p) => Err(format!("panic({})", panic_msg(&p))),
    }
}

pub fn del(h: &bc::Handle, k: &[u8]) -> Result<bool, String> {
    match std::panic::catch_unwind(std::panic::AssertUnwindSafe(|| h.del(Bytes::copy_from_slice(k)))) {
        Ok(Ok(b)) => Ok(b),
        Ok(Err(e)) => Err(format!("Err({})", e)),
        Err(p) => Err(format!("panic({})", panic_msg(&p))),
    }
}

pub fn merge(h: &bc::Handle) -> Result<(), String> {
    match std::panic::catch_unwind(std::panic::AssertUnwindSafe(|| h.verif_merge())) {
        Ok(Ok(())) => Ok(()),
        Ok(Err(e)) => Err(format!("Err({})", e)),
        Err(p) => Err(format!("panic({})", panic_msg(&p))),
    }
}

pub fn panic_msg(p: &Box<dyn std::any::Any + Send>) -> String {
    if let Some(s) = p.downcast_ref::<&str>() {
        s.to_string()
    } else if let Some(s) = p.downcast_ref::<String>() {
        s.clone()
    } else {
        "?".into()
    }
}

/// Full scan of the key universe through the API.
pub fn scan_all(h: &bc::Handle, keys: &[Vec<u8>]) -> Result<Model, String> {
    let mut m = Model::new();
    for k in keys {
        match get(h, k)? {
            Some(v) => {
                m.insert(k.clone(), v);
            }
            None => {}
        }
    }
    Ok(m)
}

pub fn diff_models(a: &Model, b: &Model) -> Option<String> {
    let keys: BTreeSet<&Vec<u8>> = a.keys().chain(b.keys()).collect();
    for k in keys {
        let x = a.get(k);
        let y = b.get(k);
        if x != y {
            return Some(format!("key {}: {} vs {}", hex(k), hexo(&x.cloned()), hexo(&y.cloned())));
        }
    }
    None
}

#[derive(Clone, Debug)]
pub struct OpRec {
    pub idx: usize,
    pub thread: usize,
    pub first_seq: u64,
    pub last_seq: u64,
    /// (key index, new value; None = delete) for mutating ops that returned Ok
    pub effect: Option<(usize, Option<Vec<u8>>)>,
    pub ok: bool,
}

#[derive(Clone, Copy, Default)]
pub struct Oracles {
    pub model: bool,
    pub reopen: bool,
    pub merge_preserves: bool,
    pub hints: bool,
    pub space: bool,
    pub discipline: bool,
    pub accounting: bool,
}

impl Oracles {
    pub fn for_check(check: &str) -> Oracles {
        let mut o = Oracles::default();
        match check {
            "C01" => o.model = true,
            "C02" => o.reopen = true,
            "C05" => o.merge_preserves = true,
            "C12" => o.hints = true,
            "C13" => o.space = true,
            "C14" => o.discipline = true,
            "C19" => o.accounting = true,
            _ => {}
        }
        o
    }
}

pub struct SeqState {
    pub store: Option<Store>,
    pub model: Model,
    pub hist: Vec<OpRec>,
    pub wrote_since_open: bool,
    pub merged_ever: bool,
    pub lineage_max: Option<u64>,
    pub ops_done: usize,
    /// per-key: which of old/new was observed for an op that failed under an injected fault
    pub opkinds: u64,
}

pub fn tag_of(thread: usize, idx: usize) -> u64 {
    ((thread as u64 + 1) << 32) | (idx as u64 + 1)
}

/// Diagnose why `got` differs from `want` for key `k` using the on-disk truth.
fn diagnose_key(dir: &DirImage, k: &[u8], got: &Option<Vec<u8>>) -> String {
    let t = scan::truth_of(dir);
    // newest record of k on disk
    let mut newest: Option<(u64, u64, bool, Option<Vec<u8>>)> = None;
    let mut older_value_files = Vec::new();
    for (id, recs) in &t.files {
        for r in recs {
            if r.key == k {
                if let Some((nid, _, _, Some(_))) = &newest {
                    older_value_files.push(*nid);
                }
                newest = Some((*id, r.pos, r.value.is_none(), r.value.clone()));
            }
        }
    }
    match (newest, got) {
        (Some((_, _, true, _)), Some(g)) => {
            // newest on disk is a tombstone, yet a value is returned: is that value an older on-disk value?
            let is_old = t.files.values().flatten().any(|r| r.key == k && r.value.as_ref() == Some(g));
            if is_old {
                "tombstone-on-disk-ignored".into()
            } else {
                "".into()
            }
        }
        (None, Some(_)) => "".into(),
        (Some((_, _, false, Some(v))), Some(g)) if &v != g => {
            let is_old = t.files.values().flatten().any(|r| r.key == k && r.value.as_ref() == Some(g));
            if is_old {
                "older-value-resurrected".into()
            } else {
                "".into()
            }
        }
        _ => "".into(),
    }
}

/// Run the main (sequential) thread of a store scenario with the oracles of `ctx.check`.
pub fn run_seq(ctx: &mut Ctx, scn: &StoreScn) {
    let or = Oracles::for_check(&ctx.check);
    let rel = ctx.new_dir("s");
    let mut cfg = scn.cfg.clone();
    let mut st = SeqState {
        store: None,
        model: Model::new(),
        hist: Vec::new(),
        wrote_since_open: false,
        merged_ever: false,
        lineage_max: None,
        ops_done: 0,
        opkinds: 0,
    };
    match open_store(ctx, &rel, &cfg) {
        Ok(s) => st.store = Some(s),
        Err(e) => {
            ctx.viol("open-failed", format!("initial open of an empty directory failed: {}", e), "");
            return;
        }
    }
    let keys = &scn.keys;
    let ops = &scn.threads[0];
    let mut opsig = 0u64;
    for (i, op) in ops.iter().enumerate() {
        fsim::set_op_tag(tag_of(0, i));
        let first_seq = io_seq(ctx.sim) + 1;
        let mut effect = None;
        let mut ok = true;
        let h = st.store.as_ref().unwrap().h.clone();
        match op {
            Op::Set(k, v) => {
                let key = &keys[*k];
                let val = v.bytes();
                ctx.observe(1);
                match set(&h, key, val.clone()) {
                    Ok(()) => {
                        st.model.insert(key.clone(), val.clone());
                        effect = Some((*k, Some(val)));
                        st.wrote_since_open = true;
                    }
                    Err(e) => {
                        ok = false;
                        ctx.viol("op-failed", format!("op#{} set({}, {}B) returned {} with no fault injected", i, hex(key), v.len, e), "");
                    }
                }
                opsig = mix(opsig, 1 + (v.len as u64 > 8000) as u64);
            }
            Op::Get(k) => {
                let key = &keys[*k];
                match get(&h, key) {
                    Ok(got) => {
                        ctx.observe_bytes(got.as_deref().unwrap_or(b"\xffnil"));
                        let want = st.model.get(key).cloned();
                        if got != want && or.model {
                            let img = dir_image(ctx.sim, &rel, u64::MAX);
                            let sg = diagnose_key(&img, key, &got);
                            ctx.viol("get-mismatch", format!("op#{} get({}) returned {} but the model holds {}", i, hex(key), hexo(&got), hexo(&want)), &sg);
                        }
                    }
                    Err(e) => {
                        ok = false;
                        ctx.viol("op-failed", format!("op#{} get({}) returned {} with no fault injected", i, hex(key), e), "");
                    }
                }
                opsig = mix(opsig, 3);
            }
            Op::Del(k) => {
                let key = &keys[*k];
                match del(&h, key) {
                    Ok(b) => {
                        ctx.observe(b as u64 + 10);
                        let want = st.model.remove(key).is_some();
                        effect = Some((*k, None));
                        st.wrote_since_open = true;
                        if b != want && or.model {
                            ctx.viol("del-mismatch", format!("op#{} del({}) returned {} but the model says present={}", i, hex(key), b, want), "");
                        }
                    }
                    Err(e) => {
                        ok = false;
                        ctx.viol("op-failed", format!("op#{} del({}) returned {} with no fault injected", i, hex(key), e), "");
                    }
                }
                opsig = mix(opsig, 4);
            }
            Op::Merge => {
                do_merge(ctx, &mut st, scn, &or, i);
                opsig = mix(opsig, 5);
            }
            Op::Reopen(wait) => {
                do_reopen(ctx, &mut st, scn, &or, i, *wait, &cfg);
                opsig = mix(opsig, 6);
            }
            Op::Retune(which) => {
                // choose thresholds from the live statistics, then reopen with them
                let d = h.verif_dump();
                let img = dir_image(ctx.sim, &rel, u64::MAX);
                let mut sizes: Vec<u64> = Vec::new();
                let mut deads: Vec<u64> = Vec::new();
                let mut frags: Vec<f64> = Vec::new();
                for s in &d.stats {
                    let sz = img.get(&format!("{}.bitcask.data", s.fileid)).map(|b| b.len() as u64).unwrap_or(0);
                    sizes.push(sz);
                    deads.push(s.dead_bytes);
                    let tot = s.dead_keys + s.live_keys;
                    frags.push(if s.dead_keys == 0 { 0.0 } else { s.dead_keys as f64 / tot as f64 });
                }
                sizes.sort_unstable();
                deads.sort_unstable();
                frags.sort_by(|a, b| a.partial_cmp(b).unwrap());
                let mid = |v: &Vec<u64>| if v.is_empty() { 0 } else { v[v.len() / 2] };
                cfg.thr_small = 0;
                cfg.thr_dead = u64::MAX;
                cfg.thr_frag = 1.0;
                match which % 5 {
                    0 => cfg.thr_small = mid(&sizes),
                    1 => cfg.thr_dead = mid(&deads).saturating_sub(1),
                    2 => cfg.thr_frag = if frags.is_empty() { 0.5 } else { (frags[frags.len() / 2] - 0.01).max(0.0) },
                    3 => cfg.thr_small = u64::MAX,
                    _ => cfg.thr_dead = 0,
                }
                do_reopen(ctx, &mut st, scn, &or, i, true, &cfg);
                opsig = mix(opsig, 7);
            }
            Op::Pass(ms) => {
                ctx.sim.sleep_thread(ctx.me, ms * 1_000_000);
                opsig = mix(opsig, 8);
            }
            Op::Sync => {
                if let Err(e) = h.verif_sync() {
                    ctx.viol("op-failed", format!("op#{} sync returned {}", i, e), "");
                }
            }
            Op::ClockJump(secs) => {
                ctx.sim.wall_skew_ns.fetch_add(secs * 1_000_000_000, std::sync::atomic::Ordering::Relaxed);
            }
            Op::Close => {}
        }
        drop(h);
        let last_seq = io_seq(ctx.sim);
        st.hist.push(OpRec { idx: i, thread: 0, first_seq, last_seq, effect, ok });
        st.ops_done = i + 1;
        if st.store.is_none() {
            break;
        }
        // periodic full scan (C01) and per-op accounting check (C19)
        if or.model && (i % 5 == 4 || matches!(op, Op::Merge)) {
            full_scan_check(ctx, &st, scn, i, "periodic");
        }
        if or.accounting {
            check_accounting(ctx, &st, i);
        }
        if !ctx.out.violations.is_empty() {
            break;
        }
    }
    fsim::set_op_tag(0);
    st.opkinds = opsig;
    // reach: rollovers, merges, reopens
    let data_creates = fsim::with_fs(ctx.sim, |fs| fs.log.iter().filter(|r| r.op == IoOp::Create && r.res >= 0 && fs.path_name(r.path).ends_with(".data")).count());
    if data_creates > 1 {
        ctx.sim.probe_add("data_files_created_beyond_first", data_creates as u64 - 1);
        ctx.out.nontrivial = true;
    }
    if ops.iter().any(|o| matches!(o, Op::Set(_, v) if v.len >= 8150)) {
        ctx.sim.probe("value_at_or_above_write_buffer");
    }
    if ops.iter().any(|o| matches!(o, Op::Set(_, v) if v.len as u64 > scn.cfg.max_file_size)) {
        ctx.sim.probe("value_larger_than_file_limit");
    }
    if scn.cfg.cache == 0 {
        ctx.sim.probe("reads_with_cache_size_0");
    }
    if scn.cfg.pool == 0 {
        ctx.sim.probe("pool_size_0");
    }
    ctx.sig(mix(opsig, fnv1a(format!("{:?}", (scn.cfg.max_file_size, scn.cfg.cache, scn.cfg.pool)).as_bytes())));
    if scn.cfg.merge_always {
        let me = ctx.me;
        if fsim::with_fs(ctx.sim, |fs| fs.log.iter().any(|r| r.op == IoOp::Create && r.res >= 0 && r.tid != me && fs.path_name(r.path).ends_with(".hint"))) {
            ctx.sim.probe("timer_merge_ran");
        }
    }
    // end of workload
    if ctx.out.violations.is_empty() && st.store.is_some() {
        if or.model {
            full_scan_check(ctx, &st, scn, ops.len(), "final");
        }
        if or.hints {
            check_hints(ctx, &mut st, scn);
        }
    }
    // close
    if let Some(s) = st.store.take() {
        drop(s);
    }
    ctx.join_others();
    if or.discipline {
        check_discipline(ctx, &rel, scn);
        if ctx.out.violations.is_empty() {
            crash_and_continue(ctx, &rel, scn);
        }
    }
    // the shadow must equal the real files (catches mutation through an unseen path)
    if or.discipline {
        check_shadow_vs_disk(ctx, &rel);
    }
    remove_dir(ctx, &rel);
}

fn full_scan_check(ctx: &mut Ctx, st: &SeqState, scn: &StoreScn, i: usize, what: &str) {
    let s = st.store.as_ref().unwrap();
    match scan_all(&s.h, &scn.keys) {
        Ok(m) => {
            if let Some(d) = diff_models(&m, &st.model) {
                let img = dir_image(ctx.sim, &s.rel, u64::MAX);
                let k = first_diff_key(&m, &st.model);
                let sg = k.map(|k| diagnose_key(&img, &k, &m.get(&k).cloned())).unwrap_or_default();
                ctx.viol("scan-mismatch", format!("{} full scan after op#{} differs from the model (store vs model): {}", what, i, d), &sg);
            }
        }
        Err(e) => ctx.viol("op-failed", format!("{} full scan after op#{}: get returned {}", what, i, e), ""),
    }
}

fn first_diff_key(a: &Model, b: &Model) -> Option<Vec<u8>> {
    let keys: BTreeSet<&Vec<u8>> = a.keys().chain(b.keys()).collect();
    for k in keys {
        if a.get(k) != b.get(k) {
            return Some(k.clone());
        }
    }
    None
}

fn do_merge(ctx: &mut Ctx, st: &mut SeqState, scn: &StoreScn, or: &Oracles, i: usize) {
    let s = st.store.as_ref().unwrap();
    let h = s.h.clone();
    let rel = s.rel.clone();
    let before_img = dir_image(ctx.sim, &rel, u64::MAX);
    let before_scan = if or.merge_preserves || or.space { scan_all(&h, &scn.keys).ok() } else { None };
    // C13: is every non-empty data file eligible by the documented thresholds, on TRUE numbers?
    // (dead bytes, share of dead entries among all entries, file size; which entries are live is
    // taken from the index, whose correctness is C19's subject)
    let eligible_by_truth = if or.space {
        let d = h.verif_dump();
        let cfg = &s.cfg;
        let mut all = true;
        let mut any = false;
        for (name, bytes) in before_img.iter() {
            let id = match scan::parse_name(name) {
                Some((id, false)) if !bytes.is_empty() => id,
                _ => continue,
            };
            let (recs, _torn) = scan::scan_data(bytes);
            let live_pos: BTreeSet<u64> = d.index.iter().filter(|e| e.fileid == id).map(|e| e.pos).collect();
            let live = recs.iter().filter(|r| live_pos.contains(&r.pos)).count() as u64;
            let dead = recs.len() as u64 - live;
            let dead_bytes: u64 = recs.iter().filter(|r| !live_pos.contains(&r.pos)).map(|r| r.len).sum();
            let frag = if dead == 0 { 0.0 } else { dead as f64 / (dead + live) as f64 };
            any = true;
            if !(dead_bytes > cfg.thr_dead || frag > cfg.thr_frag || (bytes.len() as u64) < cfg.thr_small) {
                all = false;
            }
        }
        any && all
    } else {
        false
    };
    let seq0 = io_seq(ctx.sim);
    let r = merge(&h);
    st.merged_ever = true;
    st.wrote_since_open = true;
    if let Err(e) = r {
        ctx.viol("merge-failed", format!("op#{} merge returned {} with no fault injected", i, e), "");
        return;
    }
    let after_img = dir_image(ctx.sim, &rel, u64::MAX);
    // classify the merge for coverage
    let nonempty_before: BTreeSet<u64> = before_img
        .iter()
        .filter_map(|(n, b)| scan::parse_name(n).filter(|(_, hint)| !*hint && !b.is_empty()).map(|(id, _)| id))
        .collect();
    let unlinked: BTreeSet<u64> = fsim::with_fs(ctx.sim, |fs| {
        fs.log
            .iter()
            .filter(|r| r.seq > seq0 && r.op == IoOp::Unlink && r.res >= 0)
            .filter_map(|r| {
                let n = fs.path_name(r.path);
                let base = n.rsplit('/').next().unwrap_or(n);
                scan::parse_name(base).filter(|(_, hint)| !*hint).map(|(id, _)| id)
            })
            .collect()
    });
    let all_unlinked = nonempty_before.iter().all(|id| unlinked.contains(id));
    // every non-empty data file is eligible when the thresholds say so, whatever the pass then
    // did: a small-file threshold of u64::MAX selects every file that holds an entry
    let eligible_by_config = st.store.as_ref().map(|s| s.cfg.thr_small == u64::MAX).unwrap_or(false);
    let all_eligible = all_unlinked || eligible_by_config || eligible_by_truth;
    if (eligible_by_config || eligible_by_truth) && !all_unlinked {
        ctx.sim.probe("all_eligible_by_thresholds_but_not_all_removed");
    }
    if eligible_by_truth && !eligible_by_config {
        ctx.sim.probe("all_eligible_by_dead_bytes_or_fragmentation_alone");
    }
    let none = unlinked.iter().all(|id| !nonempty_before.contains(id));
    if all_eligible && !nonempty_before.is_empty() {
        ctx.sim.probe("merge_selected_all_nonempty");
    } else if none {
        ctx.sim.probe("merge_selected_none");
    } else {
        ctx.sim.probe("merge_selected_strict_subset");
    }
    let outputs: Vec<u64> = after_img
        .keys()
        .filter_map(|n| scan::parse_name(n))
        .filter(|(id, hint)| *hint && !before_img.contains_key(&format!("{}.bitcask.hint", id)))
        .map(|(id, _)| id)
        .collect();
    if outputs.len() > 1 {
        ctx.sim.probe("merge_output_rolled_over");
    }
    if or.merge_preserves {
        match (before_scan.as_ref(), scan_all(&h, &scn.keys)) {
            (Some(b), Ok(a)) => {
                if let Some(d) = diff_models(&a, b) {
                    ctx.viol("merge-changed-read", format!("op#{} merge changed what a key reads (after vs before): {}", i, d), "");
                } else if let Some(d) = diff_models(&a, &st.model) {
                    let k = first_diff_key(&a, &st.model);
                    let sg = k.map(|k| diagnose_key(&after_img, &k, &a.get(&k).cloned())).unwrap_or_default();
                    ctx.viol("scan-mismatch", format!("scan after merge op#{} differs from the model: {}", i, d), &sg);
                }
                // does a tombstone protect an unmerged older value? (reach probe)
                tombstone_probe(ctx, &before_img, &unlinked);
            }
            (_, Err(e)) => ctx.viol("op-failed", format!("scan after merge op#{}: {}", i, e), ""),
            _ => {}
        }
    }
    if or.space {
        let b = data_total(&before_img);
        let a = data_total(&after_img);
        if a > b {
            ctx.viol("merge-grew-store", format!("op#{} merge grew the data files from {} to {} bytes", i, b, a), "");
        }
        if all_eligible {
            // the size of a fresh store (real code, separate directory, no size limit, no
            // background tasks) holding exactly the live pairs
            let want: u64 = {
                let frel = ctx.new_dir("f");
                let mut fcfg = StoreCfg::default();
                fcfg.max_file_size = u64::MAX;
                fcfg.merge_always = false;
                fcfg.pool = 1;
                let mut total = 0;
                match open_store(ctx, &frel, &fcfg) {
                    Ok(fs) => {
                        for (k, v) in st.model.iter() {
                            let _ = set(&fs.h, k, v.clone());
                        }
                        drop(fs);
                        // its background thread has nothing to wait for (no merge policy, no
                        // sync interval); the main store's worker may be alive, so no join
                        ctx.settle();
                        total = data_total(&dir_image(ctx.sim, &frel, u64::MAX));
                    }
                    Err(_) => ctx.settle(),
                }
                remove_dir(ctx, &frel);
                total
            };
            let formula: u64 = st.model.iter().map(|(k, v)| scan::entry_size(k, v)).sum();
            if formula != want {
                // the on-disk format is not the one the independent decoder knows: rely on
                // the fresh store only
                ctx.sim.probe("fresh_store_size_differs_from_format_formula");
            }
            if a != want {
                ctx.viol(
                    "merge-not-minimal",
                    format!("op#{} merge with every non-empty file eligible left {} bytes of data files; a fresh store with the {} live pairs takes {}", i, a, st.model.len(), want),
                    "",
                );
            }
            // every live key exactly once, no tombstone, no dead entry (only where the
            // independent decoder understands the files completely)
            let t = scan::truth_of(&after_img);
            let parseable = t.torn.is_empty() && formula == want;
            let mut seen: BTreeMap<Vec<u8>, u32> = BTreeMap::new();
            let mut tombs = 0;
            for recs in t.files.values() {
                for r in recs {
                    if r.value.is_none() {
                        tombs += 1;
                    }
                    *seen.entry(r.key.clone()).or_insert(0) += 1;
                }
            }
            if parseable && (tombs > 0 || seen.values().any(|c| *c != 1) || seen.len() != st.model.len()) {
                ctx.viol(
                    "merge-not-minimal",
                    format!("op#{} after an all-files merge the data files hold {} tombstones and {} distinct keys ({} live in the model), some more than once", i, tombs, seen.len(), st.model.len()),
                    "",
                );
            }
            if st.model.is_empty() {
                ctx.sim.probe("merge_with_nothing_live");
            }
            // repeating the merge changes nothing further
            if ctx.out.violations.is_empty() {
                if let Err(e) = merge(&h) {
                    ctx.viol("merge-failed", format!("repeated merge after op#{} returned {}", i, e), "");
                } else {
                    let again = dir_image(ctx.sim, &rel, u64::MAX);
                    let a2 = data_total(&again);
                    if a2 != a {
                        ctx.viol("merge-not-idempotent", format!("repeating the merge after op#{} changed the data size from {} to {}", i, a, a2), "");
                    }
                    if let (Some(b), Ok(s2)) = (before_scan.as_ref(), scan_all(&h, &scn.keys)) {
                        if let Some(d) = diff_models(&s2, b) {
                            ctx.viol("merge-not-idempotent", format!("repeating the merge after op#{} changed a read: {}", i, d), "");
                        }
                    }
                }
            }
        }
    }
}

fn tombstone_probe(ctx: &mut Ctx, before: &DirImage, merged: &BTreeSet<u64>) {
    let t = scan::truth_of(before);
    for (id, recs) in &t.files {
        if !merged.contains(id) {
            continue;
        }
        for r in recs {
            if r.value.is_none() {
                // an older value of this key in a file that is not merged?
                let protects = t.files.iter().any(|(oid, orecs)| oid < id && !merged.contains(oid) && orecs.iter().any(|o| o.key == r.key && o.value.is_some()));
                if protects {
                    ctx.sim.probe("tombstone_over_unmerged_value");
                    return;
                }
            }
        }
    }
}

fn do_reopen(ctx: &mut Ctx, st: &mut SeqState, scn: &StoreScn, or: &Oracles, i: usize, wait: bool, cfg: &StoreCfg) {
    let old = st.store.take().unwrap();
    let rel = old.rel.clone();
    let before_img = dir_image(ctx.sim, &rel, u64::MAX);
    let before_nonempty: BTreeMap<String, usize> = before_img.iter().filter(|(n, b)| n.ends_with(".data") && !b.is_empty()).map(|(n, b)| (n.clone(), b.len())).collect();
    let wrote = st.wrote_since_open;
    drop(old);
    if wait {
        ctx.join_others();
    }
    match open_store(ctx, &rel, cfg) {
        Ok(s) => {
            st.store = Some(s);
            st.wrote_since_open = false;
        }
        Err(e) => {
            ctx.viol("open-failed", format!("op#{} reopen failed: {}", i, e), "");
            return;
        }
    }
    ctx.sim.probe("reopen");
    if or.reopen || or.merge_preserves || or.model {
        let s = st.store.as_ref().unwrap();
        match scan_all(&s.h, &scn.keys) {
            Ok(m) => {
                if let Some(d) = diff_models(&m, &st.model) {
                    let img = dir_image(ctx.sim, &rel, u64::MAX);
                    let k = first_diff_key(&m, &st.model);
                    let sg = k.map(|k| diagnose_key(&img, &k, &m.get(&k).cloned())).unwrap_or_default();
                    ctx.viol("reopen-mismatch", format!("after reopen op#{} the store differs from what it held before the close (store vs model): {}", i, d), &sg);
                }
            }
            Err(e) => ctx.viol("op-failed", format!("scan after reopen op#{}: {}", i, e), ""),
        }
    }
    // (with timer-driven merging configured the store may rewrite its files on its own; the
    // file-level clause is for stores that only change through client writes)
    if or.reopen && !wrote && !cfg.merge_always && !scn.cfg.merge_always {
        ctx.sim.probe("reopen_without_writes");
        let after_img = dir_image(ctx.sim, &rel, u64::MAX);
        let after_nonempty: BTreeMap<String, usize> = after_img.iter().filter(|(n, b)| n.ends_with(".data") && !b.is_empty()).map(|(n, b)| (n.clone(), b.len())).collect();
        if after_nonempty != before_nonempty {
            ctx.viol("reopen-changed-files", format!("reopen op#{} without intervening writes changed the set of non-empty data files: {:?} -> {:?}", i, before_nonempty, after_nonempty), "");
        }
    }
}

/// C12: materialise the closed directory twice, once without hint files; both must open and
/// read identically.
fn check_hints(ctx: &mut Ctx, st: &mut SeqState, scn: &StoreScn) {
    let s = st.store.take().unwrap();
    let rel = s.rel.clone();
    let cfg = s.cfg.clone();
    drop(s);
    ctx.join_others();
    let img = dir_image(ctx.sim, &rel, u64::MAX);
    let hints: Vec<&String> = img.keys().filter(|n| n.ends_with(".hint")).collect();
    if hints.is_empty() {
        // reopen for the common epilogue
        st.store = open_store(ctx, &rel, &cfg).ok();
        return;
    }
    ctx.out.nontrivial = true;
    let nonempty_hints = hints.iter().filter(|n| !img[**n].is_empty()).count();
    if nonempty_hints > 1 {
        ctx.sim.probe("several_hint_files");
    }
    for n in &hints {
        let (recs, _) = scan::scan_hint(&img[*n]);
        if recs.len() > 1 {
            ctx.sim.probe("hint_file_with_many_entries");
        }
        if recs.is_empty() {
            ctx.sim.probe("empty_hint_file");
        }
        // hint-bearing file with entries that are dead by now
        let t = scan::truth_of(&img);
        if let Some((id, _)) = scan::parse_name(n) {
            if recs.iter().any(|r| t.live.get(&r.key).map(|l| l.0 != id).unwrap_or(true)) {
                ctx.sim.probe("hint_file_with_dead_entries");
            }
        }
    }
    let mut without = img.clone();
    without.retain(|n, _| !n.ends_with(".hint"));
    let a = materialise(ctx, "hw", &img, None);
    let b = materialise(ctx, "hn", &without, None);
    let mut cfg2 = cfg.clone();
    cfg2.merge_always = false;
    cfg2.sync = SyncCfg::None;
    let ra = open_store(ctx, &a, &cfg2);
    let rb = open_store(ctx, &b, &cfg2);
    // every key of the universe and every key found on disk
    let mut keys: BTreeSet<Vec<u8>> = scn.keys.iter().cloned().collect();
    for recs in scan::truth_of(&img).files.values() {
        for r in recs {
            keys.insert(r.key.clone());
        }
    }
    match (ra, rb) {
        (Ok(sa), Ok(sb)) => {
            for k in &keys {
                let x = get(&sa.h, k);
                let y = get(&sb.h, k);
                if x != y {
                    ctx.viol(
                        "hint-disagreement",
                        format!("key {} reads {:?} when the index is rebuilt with hint files and {:?} when rebuilt from data files only", hex(k), x.map(|v| hexo(&v)), y.map(|v| hexo(&v))),
                        "",
                    );
                    break;
                }
            }
            drop(sa);
            drop(sb);
        }
        (Err(e), _) => ctx.viol("open-failed", format!("open of the closed store (with hint files) failed: {}", e), ""),
        (_, Err(e)) => ctx.viol("open-failed", format!("open of the closed store with hint files removed failed: {}", e), ""),
    }
    ctx.join_others();
    remove_dir(ctx, &a);
    remove_dir(ctx, &b);
    st.store = open_store(ctx, &rel, &cfg).ok();
}

/// C19: the store's bookkeeping against an independent scan of the files.
fn check_accounting(ctx: &mut Ctx, st: &SeqState, i: usize) {
    let s = match st.store.as_ref() {
        Some(s) => s,
        None => return,
    };
    check_accounting_with(ctx, s, &st.model, &format!("after op#{}", i))
}

/// The index and the per-file counters of a quiet store against ground truth (the independent
/// scan of its files) and the model of its contents.
fn check_accounting_with(ctx: &mut Ctx, s: &Store, model: &Model, when: &str) {
    let d = s.h.verif_dump();
    let img = dir_image(ctx.sim, &s.rel, u64::MAX);
    let t = scan::truth_of(&img);
    if !t.torn.is_empty() {
        // a file of a fault-free, crash-free run that the independent decoder cannot read to
        // its end: the format is not the one it knows, there is no ground truth to compare with
        ctx.sim.probe("ground_truth_decoder_cannot_read_a_file");
        return;
    }
    // index == model keys, each entry is the newest on-disk record and decodes to the model value
    let idx: BTreeMap<Vec<u8>, (u64, u64, u64)> = d.index.iter().map(|e| (e.key.clone(), (e.fileid, e.pos, e.len))).collect();
    let mk: BTreeSet<&Vec<u8>> = model.keys().collect();
    let ik: BTreeSet<&Vec<u8>> = idx.keys().collect();
    if mk != ik {
        let extra: Vec<String> = ik.difference(&mk).map(|k| hex(k)).collect();
        let missing: Vec<String> = mk.difference(&ik).map(|k| hex(k)).collect();
        let sg = if !extra.is_empty() && missing.is_empty() { "index-has-deleted-key" } else { "" };
        ctx.viol("index-keys", format!("{} the index holds keys {:?} that are not live and lacks live keys {:?}", when, extra, missing), sg);
        return;
    }
    for (k, (f, p, l)) in &idx {
        let recs = match t.files.get(f) {
            Some(r) => r,
            None => {
                ctx.viol("index-location", format!("{} the index entry of {} points to file {} which does not exist", when, hex(k), f), "");
                return;
            }
        };
        match recs.iter().find(|r| r.pos == *p) {
            Some(r) if r.len == *l && &r.key == k && r.value.as_ref() == model.get(k) => {}
            other => {
                ctx.viol("index-location", format!("{} the index entry of {} = (file {}, pos {}, len {}) is not the record holding its current value (found {:?})", when, hex(k), f, p, l, other.map(|r| (r.pos, r.len, hex(&r.key)))), "");
                return;
            }
        }
    }
    // per file counters
    let stats: BTreeMap<u64, (u64, u64, u64)> = d.stats.iter().map(|s| (s.fileid, (s.live_keys, s.dead_keys, s.dead_bytes))).collect();
    let mut ids: BTreeSet<u64> = t.files.keys().cloned().collect();
    ids.extend(stats.keys().cloned());
    for id in ids {
        let recs = t.files.get(&id).cloned().unwrap_or_default();
        let live: u64 = idx.values().filter(|(f, _, _)| *f == id).count() as u64;
        let live_pos: BTreeSet<u64> = idx.values().filter(|(f, _, _)| *f == id).map(|(_, p, _)| *p).collect();
        let dead = recs.len() as u64 - live.min(recs.len() as u64);
        let dead_bytes: u64 = recs.iter().filter(|r| !live_pos.contains(&r.pos)).map(|r| r.len).sum();
        let (sl, sd, sb) = stats.get(&id).cloned().unwrap_or((0, 0, 0));
        if (sl, sd, sb) != (live, dead, dead_bytes) {
            let underflow = sl > recs.len() as u64 || sd > recs.len() as u64;
            let sg = if underflow { "counter-underflow" } else { "" };
            ctx.viol(
                "accounting",
                format!("{} file {} is accounted as live={} dead={} dead_bytes={} but really holds live={} dead={} dead_bytes={} ({} records)", when, id, sl, sd, sb, live, dead, dead_bytes, recs.len()),
                sg,
            );
            return;
        }
    }
    ctx.out.nontrivial = true;
}

/// C14: file discipline, id monotonicity and the size bound, from the I/O log and the shadow.
pub fn check_discipline(ctx: &mut Ctx, rel: &str, scn: &StoreScn) {
    check_discipline_lineage(ctx, rel, scn, None)
}

/// `inherited`: the largest id the directory's lineage had contained before this directory was
/// cut from it (a crash image inherits the maximum of the state it was cut from).
pub fn check_discipline_lineage(ctx: &mut Ctx, rel: &str, scn: &StoreScn, inherited: Option<u64>) {
    let (breaches, creates, final_files): (Vec<String>, Vec<(u64, String, u64)>, Vec<(String, Vec<u8>)>) = fsim::with_fs(ctx.sim, |fs| {
        let prefix = format!("{}/", rel);
        let creates = fs
            .log
            .iter()
            .filter(|r| (r.op == IoOp::Create || r.op == IoOp::Adopt) && r.res >= 0 && fs.path_name(r.path).starts_with(&prefix))
            .map(|r| (r.seq, fs.path_name(r.path)[prefix.len()..].to_string(), (r.op == IoOp::Adopt) as u64))
            .collect();
        let files = fs.incs.iter().filter(|i| fs.path_name(i.path).starts_with(&prefix)).map(|i| (fs.path_name(i.path)[prefix.len()..].to_string(), i.data.clone())).collect();
        (fs.discipline.clone(), creates, files)
    });
    if let Some(b) = breaches.first() {
        ctx.viol("file-discipline", b.clone(), "");
    }
    // ids only grow: every created data/hint file id exceeds every id seen before it
    // (a data file and its own hint file share an id)
    let mut max_data: Option<u64> = inherited;
    let mut max_hint: Option<u64> = None;
    for (_seq, name, adopted) in &creates {
        if let Some((id, hint)) = scan::parse_name(name) {
            if *adopted == 1 {
                let m = if hint { &mut max_hint } else { &mut max_data };
                *m = Some(m.map_or(id, |x| x.max(id)));
                continue;
            }
            let seen_max = match (max_data, max_hint) {
                (Some(a), Some(b)) => Some(a.max(b)),
                (a, b) => a.or(b),
            };
            let ok = if hint {
                // a hint file belongs to the data file of the same id created just before it
                max_hint.map_or(true, |m| id > m) && max_data.map_or(true, |m| id >= m)
            } else {
                seen_max.map_or(true, |m| id > m)
            };
            if !ok {
                ctx.viol("id-not-monotonic", format!("file {} was created although the directory had already contained id {:?} (data) / {:?} (hint)", name, max_data, max_hint), "");
                break;
            }
            let m = if hint { &mut max_hint } else { &mut max_data };
            *m = Some(m.map_or(id, |x| x.max(id)));
        }
    }
    // no data file exceeds the limit by more than one entry
    for (name, data) in &final_files {
        if !name.ends_with(".data") {
            continue;
        }
        let (recs, torn) = scan::scan_data(data);
        if recs.len() >= 2 && torn == 0 {
            let all_but_last: u64 = recs[..recs.len() - 1].iter().map(|r| r.len).sum();
            if all_but_last > scn.cfg.max_file_size {
                ctx.viol("file-too-large", format!("data file {} holds {} bytes before its last entry; the configured maximum is {}", name, all_but_last, scn.cfg.max_file_size), "");
                break;
            }
        }
    }
    ctx.out.nontrivial = true;
}

pub fn check_shadow_vs_disk(ctx: &mut Ctx, rel: &str) {
    let img = dir_image(ctx.sim, rel, u64::MAX);
    let abs = ctx.abs(rel);
    let mut problems = Vec::new();
    simrt::untracked(|| {
        let mut on_disk = BTreeSet::new();
        if let Ok(rd) = std::fs::read_dir(&abs) {
            for e in rd.flatten() {
                let name = e.file_name().to_string_lossy().to_string();
                on_disk.insert(name.clone());
                let bytes = std::fs::read(e.path()).unwrap_or_default();
                match img.get(&name) {
                    Some(b) if *b == bytes => {}
                    Some(b) => problems.push(format!("file {} differs from the recorded writes ({} bytes on disk, {} recorded)", name, bytes.len(), b.len())),
                    None => problems.push(format!("file {} exists on disk but no tracked call created it", name)),
                }
            }
        }
        for n in img.keys() {
            if !on_disk.contains(n) {
                problems.push(format!("file {} was created and never removed by a tracked call, but is gone", n));
            }
        }
    });
    if let Some(p) = problems.first() {
        ctx.viol("shadow-divergence", p.clone(), "");
    }
}

// =============================================================================================
// C03 / C09 / C14(crash part): crash and power-loss images of a recorded workload

/// Model state for crash point `k`: effects of all operations that had returned (last record
/// <= k), plus the at most one operation per thread that was in flight.
fn durable_expectation(hist: &[OpRec], keys: &[Vec<u8>], k: u64) -> (Model, Vec<(usize, Option<Vec<u8>>)>) {
    let mut m = Model::new();
    let mut inflight: Vec<(usize, Option<Vec<u8>>)> = Vec::new();
    // operations that an injected fault made fail (`!ok`): they "may or may not have taken
    // effect", so from their first record on their value is one more alternative for the key,
    // until a later acknowledged operation on the same key has returned
    let mut failed: Vec<(usize, Option<Vec<u8>>)> = Vec::new();
    for r in hist {
        if let Some((ki, v)) = &r.effect {
            if !r.ok {
                if r.first_seq <= k {
                    failed.push((*ki, v.clone()));
                }
                continue;
            }
            if r.last_seq <= k && r.last_seq >= r.first_seq {
                match v {
                    Some(v) => {
                        m.insert(keys[*ki].clone(), v.clone());
                    }
                    None => {
                        m.remove(&keys[*ki]);
                    }
                }
                failed.retain(|(fk, _)| fk != ki);
            } else if r.first_seq <= k && k < r.last_seq {
                inflight.push((*ki, v.clone()));
            }
        }
    }
    inflight.extend(failed);
    (m, inflight)
}

/// Execute the main thread's operations without per-operation oracles (any failure without an
/// injected fault is still a violation) and record which I/O records belong to which operation.
fn exec_recorded(ctx: &mut Ctx, scn: &StoreScn, rel: &str) -> Option<(Vec<OpRec>, Option<Store>)> {
    let r = exec_recorded_inner(ctx, scn, rel);
    // the fault plan belongs to the workload; recoveries of images run without it
    fsim::with_fs(ctx.sim, |fs| fs.fault = None);
    r
}

fn exec_recorded_inner(ctx: &mut Ctx, scn: &StoreScn, rel: &str) -> Option<(Vec<OpRec>, Option<Store>)> {
    let cfg = scn.cfg.clone();
    let mut store = match open_store(ctx, rel, &cfg) {
        Ok(s) => Some(s),
        Err(e) => {
            ctx.viol("open-failed", format!("initial open of an empty directory failed: {}", e), "");
            return None;
        }
    };
    // C03/C09 with an earlier failed call in the history: one transient failure (or a short
    // episode) somewhere in the workload; the operation it hits may fail, everything else holds
    if let Some((nth, errno, mode)) = scn.fault {
        fsim::with_fs(ctx.sim, |fs| {
            let base = fs.faultable_seen;
            fs.fault = Some(fsim::FaultSpec { nth: base + nth, errno, mode: if mode & 0x0f == 1 { fsim::FailMode::ShortThenError } else { fsim::FailMode::Clean }, extra: ((mode >> 4) & 7) as u32, space_only: mode & 0x80 != 0, background_only: mode & 0x08 != 0 });
        });
    }
    let errors_seen = |sim: &Sim| -> usize { fsim::with_fs(sim, |fs| fs.log.iter().filter(|r| r.injected && r.res < 0 && !r.what.ends_with("eintr")).count()) };
    let keys = &scn.keys;
    let mut hist = Vec::new();
    for (i, op) in scn.threads[0].iter().enumerate() {
        fsim::set_op_tag(tag_of(0, i));
        let first_seq = io_seq(ctx.sim) + 1;
        let e0 = if scn.fault.is_some() { errors_seen(ctx.sim) } else { 0 };
        let faulted = |ctx: &Ctx| scn.fault.is_some() && errors_seen(ctx.sim) > e0;
        let mut effect = None;
        let mut ok = true;
        let h = store.as_ref().unwrap().h.clone();
        match op {
            Op::Set(k, v) => {
                let val = v.bytes();
                match set(&h, &keys[*k], val.clone()) {
                    Ok(()) => effect = Some((*k, Some(val))),
                    Err(_) if faulted(ctx) => {
                        ok = false;
                        effect = Some((*k, Some(val)));
                        ctx.sim.probe("workload_op_failed_by_injected_fault");
                    }
                    Err(e) => {
                        ok = false;
                        ctx.viol("op-failed", format!("op#{} set({}) returned {} with no fault injected", i, hex(&keys[*k]), e), "");
                    }
                }
            }
            Op::Del(k) => match del(&h, &keys[*k]) {
                Ok(_) => effect = Some((*k, None)),
                Err(_) if faulted(ctx) => {
                    ok = false;
                    effect = Some((*k, None));
                    ctx.sim.probe("workload_op_failed_by_injected_fault");
                }
                Err(e) => {
                    ok = false;
                    ctx.viol("op-failed", format!("op#{} del({}) returned {} with no fault injected", i, hex(&keys[*k]), e), "");
                }
            },
            Op::Get(k) => {
                let _ = get(&h, &keys[*k]);
            }
            Op::Merge => {
                if let Err(e) = merge(&h) {
                    if faulted(ctx) {
                        ctx.sim.probe("workload_merge_failed_by_injected_fault");
                    } else {
                        ok = false;
                        ctx.viol("merge-failed", format!("op#{} merge returned {} with no fault injected", i, e), "");
                    }
                }
            }
            Op::Reopen(_) | Op::Retune(_) => {
                drop(h.clone());
                let old = store.take().unwrap();
                drop(old);
                drop(h);
                ctx.join_others();
                let mut tries = 0;
                loop {
                    let e1 = errors_seen(ctx.sim);
                    match open_store(ctx, rel, &cfg) {
                        Ok(s) => {
                            store = Some(s);
                            break;
                        }
                        Err(_) if scn.fault.is_some() && errors_seen(ctx.sim) > e1 && tries < 10 => {
                            tries += 1;
                            ctx.join_others();
                        }
                        Err(e) => {
                            ctx.viol("open-failed", format!("op#{} reopen failed: {}", i, e), "");
                            return None;
                        }
                    }
                }
                let last_seq = io_seq(ctx.sim);
                hist.push(OpRec { idx: i, thread: 0, first_seq, last_seq, effect: None, ok: true });
                continue;
            }
            Op::Pass(ms) => ctx.sim.sleep_thread(ctx.me, ms * 1_000_000),
            Op::Sync => {
                let _ = h.verif_sync();
            }
            Op::ClockJump(secs) => {
                ctx.sim.wall_skew_ns.fetch_add(secs * 1_000_000_000, std::sync::atomic::Ordering::Relaxed);
            }
            Op::Close => {}
        }
        drop(h);
        let last_seq = io_seq(ctx.sim);
        hist.push(OpRec { idx: i, thread: 0, first_seq, last_seq, effect, ok });
        if !ctx.out.violations.is_empty() {
            break;
        }
    }
    fsim::set_op_tag(0);
    Some((hist, store))
}

/// What kind of record is `k`, for reach probes and coverage signatures.
fn classify_point(sim: &Sim, k: u64, hist: &[OpRec], ops: &[Op], all_threads: &[Vec<Op>]) -> (u64, &'static str) {
    let (op, is_hint, tag) = fsim::with_fs(sim, |fs| {
        if k == 0 || k as usize > fs.log.len() {
            return (IoOp::Close, false, 0);
        }
        let r = &fs.log[k as usize - 1];
        (r.op, fs.path_name(r.path).ends_with(".hint"), r.tag)
    });
    let opidx = (tag & 0xffff_ffff) as usize;
    let thread = ((tag >> 32) as usize).saturating_sub(1);
    let ops: &[Op] = all_threads.get(thread).map(|v| &v[..]).unwrap_or(ops);
    let during = if opidx >= 1 && opidx <= ops.len() {
        match &ops[opidx - 1] {
            Op::Set(..) => "set",
            Op::Del(..) => "del",
            Op::Merge => "merge",
            Op::Reopen(..) | Op::Retune(..) => "reopen",
            _ => "other",
        }
    } else {
        "none"
    };
    let inflight = hist.iter().any(|r| r.first_seq <= k && k < r.last_seq);
    let code = mix(op as u64, mix(is_hint as u64, mix(fnv1a(during.as_bytes()), inflight as u64)));
    (code, during)
}

pub fn run_crash(ctx: &mut Ctx, scn: &StoreScn, power: bool) {
    let rel = ctx.new_dir("s");
    if scn.threads.len() > 1 {
        return run_crash_concurrent(ctx, scn, power, &rel);
    }
    let (hist, store) = match exec_recorded(ctx, scn, &rel) {
        Some(x) => x,
        None => return,
    };
    if !ctx.out.violations.is_empty() {
        drop(store);
        ctx.join_others();
        return;
    }
    let last = io_seq(ctx.sim);
    drop(store);
    ctx.join_others();
    crash_enumerate(ctx, scn, &rel, hist, last, power);
}

/// Concurrent workload: every thread owns the keys with index % nthreads == its index, so the
/// acknowledged value of a key is defined by its owner's program order; a thread of `Merge`
/// operations may run alongside. Crash points are positions in the global I/O log of the schedule.
fn run_crash_concurrent(ctx: &mut Ctx, scn: &StoreScn, power: bool, rel: &str) {
    let store = match open_store(ctx, rel, &scn.cfg) {
        Ok(s) => s,
        Err(e) => {
            ctx.viol("open-failed", format!("initial open failed: {}", e), "");
            return;
        }
    };
    #[allow(clippy::type_complexity)]
    let results: Arc<StdMutex<Vec<(usize, usize, Option<(usize, Option<Vec<u8>>)>, Option<String>, u64, u64)>>> = Arc::new(StdMutex::new(Vec::new()));
    let mut joins = Vec::new();
    for (ti, ops) in scn.threads.iter().enumerate() {
        let h = store.h.clone();
        let ops = ops.clone();
        let keys = scn.keys.clone();
        let results = results.clone();
        joins.push(simrt::spawn(&format!("client-{}", ti), simrt::sched::DEFAULT_STACK, move || {
            let (sim, _) = simrt::current().unwrap();
            for (i, op) in ops.iter().enumerate() {
                fsim::set_op_tag(tag_of(ti, i));
                // an operation's file-system calls need not be made by its own thread (a group
                // commit leader appends and syncs for its followers): what counts is the position
                // of the global I/O log at the invocation and at the return
                let seq_inv = io_seq(sim);
                let (effect, err) = match op {
                    Op::Set(k, v) => {
                        let val = v.bytes();
                        match set(&h, &keys[*k], val.clone()) {
                            Ok(()) => (Some((*k, Some(val))), None),
                            Err(e) => (None, Some(format!("set: {}", e))),
                        }
                    }
                    Op::Del(k) => match del(&h, &keys[*k]) {
                        Ok(_) => (Some((*k, None)), None),
                        Err(e) => (None, Some(format!("del: {}", e))),
                    },
                    Op::Get(k) => match get(&h, &keys[*k]) {
                        Ok(_) => (None, None),
                        Err(e) => (None, Some(format!("get: {}", e))),
                    },
                    Op::Merge => match merge(&h) {
                        Ok(()) => (None, None),
                        Err(e) => (None, Some(format!("merge: {}", e))),
                    },
                    _ => (None, None),
                };
                fsim::set_op_tag(0);
                let seq_ret = io_seq(sim);
                results.lock().unwrap().push((ti, i, effect, err, seq_inv, seq_ret));
            }
        }));
    }
    for j in joins {
        let _ = j.join();
    }
    let last = io_seq(ctx.sim);
    drop(store);
    ctx.join_others();
    let mut rs: Vec<_> = results.lock().unwrap().drain(..).collect();
    rs.sort_by_key(|r| (r.0, r.1));
    if let Some((t, i, _, Some(e), _, _)) = rs.iter().find(|r| r.3.is_some()) {
        ctx.viol("op-failed", format!("t{}#{} returned {} with no fault injected", t, i, e), "");
        return;
    }
    let mut hist = Vec::new();
    for (t, i, effect, _, seq_inv, seq_ret) in rs {
        if seq_ret > seq_inv {
            hist.push(OpRec { idx: i, thread: t, first_seq: seq_inv + 1, last_seq: seq_ret.min(last), effect, ok: true });
        }
    }
    ctx.sim.probe("concurrent_crash_workload");
    crash_enumerate(ctx, scn, rel, hist, last, power);
}

fn crash_enumerate(ctx: &mut Ctx, scn: &StoreScn, rel: &str, hist: Vec<OpRec>, last: u64, power: bool) {
    let rel = rel.to_string();
    if std::env::var("BCSIM_DEBUG").is_ok() {
        dump_io_log(ctx.sim);
    }
    // freeze: from here on the workload directory's history is only read
    let keys = &scn.keys;
    let ops = &scn.threads[0];
    // crash points: after every record that changes the image (and, for power loss, fsyncs)
    let points: Vec<u64> = fsim::with_fs(ctx.sim, |fs| {
        let prefix = format!("{}/", rel);
        let mut v = vec![0u64];
        for r in &fs.log {
            if r.seq > last {
                break;
            }
            if !fs.path_name(r.path).starts_with(&prefix) || r.res < 0 {
                continue;
            }
            match r.op {
                IoOp::Create | IoOp::Write | IoOp::Unlink => v.push(r.seq),
                IoOp::Fsync if power => v.push(r.seq),
                _ => {}
            }
        }
        v
    });
    let mut chosen: Vec<u64> = points.clone();
    if scn.max_crash_points > 0 && chosen.len() > scn.max_crash_points as usize {
        // keep first/last of every operation, sample the rest
        let mut keep: BTreeSet<u64> = BTreeSet::new();
        for r in &hist {
            keep.insert(r.first_seq);
            keep.insert(r.last_seq);
            if r.first_seq > 0 {
                keep.insert(r.first_seq - 1);
            }
        }
        let mut rest: Vec<u64> = Vec::new();
        let mut must: Vec<u64> = Vec::new();
        for p in &chosen {
            if keep.contains(p) {
                must.push(*p);
            } else {
                rest.push(*p);
            }
        }
        while must.len() + rest.len() > scn.max_crash_points as usize && !rest.is_empty() {
            let i = ctx.sim.with_stream("crash", |r| r.usize_below(rest.len()));
            rest.swap_remove(i);
        }
        while must.len() > scn.max_crash_points as usize {
            let i = ctx.sim.with_stream("crash", |r| r.usize_below(must.len()));
            must.swap_remove(i);
        }
        must.extend(rest);
        must.sort_unstable();
        chosen = must;
    }
    let mut images = 0u64;
    let mut rec_cfg = scn.cfg.clone();
    rec_cfg.merge_always = false;
    rec_cfg.sync = SyncCfg::None;
    for &k in &chosen {
        let (code, during) = classify_point(ctx.sim, k, &hist, ops, &scn.threads);
        let (want, inflight) = durable_expectation(&hist, keys, k);
        // the files and their written / synced lengths at k
        let files: Vec<(String, u64, u64, usize)> = fsim::with_fs(ctx.sim, |fs| fs.image_at(&rel, k));
        let variants: u32 = if power { 2 } else { 1 };
        for variant in 0..variants {
            let mut img = DirImage::new();
            let mut lost_any = false;
            let mut torn_any = false;
            fsim::with_fs(ctx.sim, |fs| {
                for (name, len, synced, inc) in &files {
                    let keep_len = if !power {
                        *len
                    } else if variant == 0 {
                        *synced
                    } else {
                        // random surviving length between synced and written
                        let span = len - synced;
                        if span == 0 {
                            *len
                        } else {
                            let c = ctx.sim.with_stream("crash", |r| r.below(4));
                            match c {
                                0 => *synced,
                                1 => *len,
                                2 => synced + 1.min(span),
                                _ => synced + ctx.sim.with_stream("crash", |r| r.below(span + 1)),
                            }
                        }
                    };
                    if keep_len < *len {
                        lost_any = true;
                        if keep_len > *synced {
                            torn_any = true;
                        }
                    }
                    img.insert(name.clone(), fs.incs[*inc].data[..keep_len as usize].to_vec());
                }
            });
            if power && variant == 1 && !lost_any {
                continue; // identical to the kill image, which C03 covers
            }
            images += 1;
            if lost_any {
                ctx.sim.probe("power_image_lost_unsynced_bytes");
            }
            if torn_any {
                ctx.sim.probe("power_image_torn_tail");
            }
            if img.iter().any(|(n, b)| n.ends_with(".data") && b.is_empty()) {
                ctx.sim.probe("image_with_empty_data_file");
            }
            match during {
                "merge" => ctx.sim.probe("crash_point_inside_merge"),
                "reopen" => ctx.sim.probe("crash_point_inside_recovery_open"),
                "set" | "del" => {
                    if !inflight.is_empty() {
                        ctx.sim.probe("crash_point_inside_multi_write_entry")
                    }
                }
                _ => {}
            }
            // hint durable beyond data? (reach probe for C09)
            if power {
                for (n, b) in &img {
                    if let Some((id, true)) = scan::parse_name(n) {
                        let (hrecs, _) = scan::scan_hint(b);
                        let dlen = img.get(&format!("{}.bitcask.data", id)).map(|d| d.len() as u64).unwrap_or(0);
                        if hrecs.iter().any(|h| h.pos + h.len > dlen) {
                            ctx.sim.probe("hint_durable_beyond_data");
                        }
                    }
                }
            }
            let nd = img.keys().filter(|n| n.ends_with(".data")).count().min(5) as u64;
            let nh = img.keys().filter(|n| n.ends_with(".hint")).count().min(3) as u64;
            let empty = img.iter().any(|(n, b)| n.ends_with(".data") && b.is_empty()) as u64;
            ctx.sig(mix(mix(code, variant as u64), mix(nd, mix(nh, mix(empty, lost_any as u64 + 2 * torn_any as u64)))));
            if std::env::var("BCSIM_DEBUG").is_ok() {
                eprintln!("point k={} during={} variant={} files=[{}] want={:?} inflight={}", k, during, variant, img.iter().map(|(n, b)| format!("{}:{}", n, b.len())).collect::<Vec<_>>().join(" "), want.iter().map(|(k, v)| (hex(k), hex(v))).collect::<Vec<_>>(), inflight.len());
            }
            let label = if power { "power loss" } else { "kill" };
            check_image(ctx, scn, &img, &want, &inflight, &rec_cfg, k, label, variant, images);
            if !ctx.out.violations.is_empty() {
                ctx.out.evaluations = images;
                return;
            }
        }
        // C09, a lineage of two failures: the process is KILLED at k (nothing written is lost),
        // restarts with sync=always, acknowledges a few writes and merges, and only then the power
        // fails. What the restarted store was told is durable, and what had been acknowledged
        // before the kill is still there (on a share of the points)
        if power && images % 6 == 3 {
            images += 1;
            check_kill_then_power(ctx, scn, &files, &want, &inflight, k, false);
            if !ctx.out.violations.is_empty() {
                ctx.out.evaluations = images;
                return;
            }
        }
        // the same with a power loss as the first failure (two power losses in one lineage)
        if power && images % 6 == 5 {
            images += 1;
            check_kill_then_power(ctx, scn, &files, &want, &inflight, k, true);
            if !ctx.out.violations.is_empty() {
                ctx.out.evaluations = images;
                return;
            }
        }
    }
    ctx.out.evaluations = images.max(1);
    ctx.out.nontrivial = images > 1;
    *ctx.out.faults.entry(if power { "power_loss_image".to_string() } else { "process_kill_image".to_string() }).or_insert(0) += images;
    remove_dir(ctx, &rel);
}

fn check_kill_then_power(ctx: &mut Ctx, scn: &StoreScn, files: &[(String, u64, u64, usize)], want: &Model, inflight: &[(usize, Option<Vec<u8>>)], k: u64, first_is_power_loss: bool) {
    let keys = &scn.keys;
    ctx.sim.probe(if first_is_power_loss { "power_loss_then_restart_then_power_loss" } else { "kill_then_restart_then_power_loss" });
    // the directory a kill at k leaves: every written byte, and what was synced at k stays known;
    // after a power loss at k: only what was synced
    let mut img = DirImage::new();
    let mut synced: BTreeMap<String, u64> = BTreeMap::new();
    fsim::with_fs(ctx.sim, |fs| {
        for (name, len, syn, inc) in files {
            let keep = if first_is_power_loss { *syn } else { *len };
            img.insert(name.clone(), fs.incs[*inc].data[..keep as usize].to_vec());
            synced.insert(name.clone(), *syn);
        }
    });
    let irel = materialise(ctx, "k", &img, Some(&synced));
    let mut cfg = scn.cfg.clone();
    cfg.merge_always = false;
    cfg.sync = SyncCfg::Always;
    let s = match open_store(ctx, &irel, &cfg) {
        Ok(s) => s,
        Err(_) => {
            // whether a kill image opens is C03's subject
            ctx.join_others();
            remove_dir(ctx, &irel);
            return;
        }
    };
    // acknowledged by the restarted store
    let mut told = Model::new();
    let mut deleted: BTreeSet<Vec<u8>> = BTreeSet::new();
    for (j, key) in keys.iter().enumerate() {
        if j % 3 == 0 {
            let val = Val { tag: 930_000 + j as u32, len: 12 }.bytes();
            if set(&s.h, key, val.clone()) == Ok(()) {
                told.insert(key.clone(), val);
            }
        } else if j % 3 == 1 && j % 2 == 1 && del(&s.h, key).is_ok() {
            deleted.insert(key.clone());
        }
    }
    let _ = merge(&s.h);
    drop(s);
    ctx.join_others();
    // the power fails: per file everything after its last completed fsync is gone
    let after: Vec<(String, u64, u64, usize)> = fsim::with_fs(ctx.sim, |fs| fs.image_at(&irel, u64::MAX));
    let mut img2 = DirImage::new();
    fsim::with_fs(ctx.sim, |fs| {
        for (name, _len, syn, inc) in &after {
            img2.insert(name.clone(), fs.incs[*inc].data[..*syn as usize].to_vec());
        }
    });
    let irel2 = materialise(ctx, "l", &img2, None);
    let files_desc = img2.iter().map(|(n, b)| format!("{}:{}", n, b.len())).collect::<Vec<_>>().join(" ");
    match open_store(ctx, &irel2, &cfg) {
        Ok(s2) => {
            for key in keys {
                match get(&s2.h, key) {
                    Ok(got) => {
                        let ok = if let Some(v) = told.get(key) {
                            got.as_ref() == Some(v)
                        } else if deleted.contains(key) {
                            got.is_none()
                        } else {
                            allowed(want, inflight, keys, key, &got)
                        };
                        if !ok {
                            ctx.viol(
                                "recovery-mismatch",
                                format!(
                                    "{} after I/O record {}, restart with sync=always, writes and a merge, then power loss: key {} reads {}; {} [files after the power loss: {}]",
                                    if first_is_power_loss { "power loss" } else { "kill" },
                                    k,
                                    hex(key),
                                    hexo(&got),
                                    if let Some(v) = told.get(key) {
                                        format!("the restarted store had acknowledged {}", hex(v))
                                    } else if deleted.contains(key) {
                                        "the restarted store had acknowledged its deletion".to_string()
                                    } else {
                                        format!("acknowledged before the kill: {}{}", hexo(&want.get(key).cloned()), if inflight.is_empty() { String::new() } else { format!(", in flight: {:?}", inflight.iter().map(|(ki, v)| (hex(&keys[*ki]), hexo(v))).collect::<Vec<_>>()) })
                                    },
                                    files_desc
                                ),
                                "",
                            );
                            break;
                        }
                    }
                    Err(e) => {
                        ctx.viol("recovery-read-failed", format!("kill after I/O record {}, restart, merge, power loss: get({}) returned {} [files: {}]", k, hex(key), e, files_desc), "");
                        break;
                    }
                }
            }
            drop(s2);
            ctx.join_others();
        }
        Err(e) => ctx.viol("recovery-open-failed", format!("kill after I/O record {}, restart, merge, power loss: the directory [{}] cannot be opened: {}", k, files_desc, e), ""),
    }
    remove_dir(ctx, &irel);
    remove_dir(ctx, &irel2);
}

fn allowed(want: &Model, inflight: &[(usize, Option<Vec<u8>>)], keys: &[Vec<u8>], key: &[u8], got: &Option<Vec<u8>>) -> bool {
    if want.get(key) == got.as_ref() {
        return true;
    }
    inflight.iter().any(|(ki, v)| keys[*ki] == key && v == got)
}

#[allow(clippy::too_many_arguments)]
fn check_image(ctx: &mut Ctx, scn: &StoreScn, img: &DirImage, want: &Model, inflight: &[(usize, Option<Vec<u8>>)], rec_cfg: &StoreCfg, k: u64, label: &str, variant: u32, nth: u64) {
    let keys = &scn.keys;
    let irel = materialise(ctx, "i", img, None);
    let files_desc = || img.iter().map(|(n, b)| format!("{}:{}", n, b.len())).collect::<Vec<_>>().join(" ");
    let s = match open_store(ctx, &irel, rec_cfg) {
        Ok(s) => s,
        Err(e) => {
            ctx.viol("recovery-open-failed", format!("{} after I/O record {} (variant {}): the directory [{}] cannot be opened: {}", label, k, variant, files_desc(), e), "");
            return;
        }
    };
    let mut first_scan = Model::new();
    for key in keys {
        match get(&s.h, key) {
            Ok(got) => {
                if !allowed(want, inflight, keys, key, &got) {
                    let sg = diagnose_key(img, key, &got);
                    ctx.viol(
                        "recovery-mismatch",
                        format!(
                            "{} after I/O record {} (variant {}): key {} reads {} after recovery; acknowledged value is {}{} [files: {}]",
                            label,
                            k,
                            variant,
                            hex(key),
                            hexo(&got),
                            hexo(&want.get(key).cloned()),
                            if inflight.is_empty() { String::new() } else { format!(", in flight: {:?}", inflight.iter().map(|(ki, v)| (hex(&keys[*ki]), hexo(v))).collect::<Vec<_>>()) },
                            files_desc()
                        ),
                        &sg,
                    );
                    drop(s);
                    ctx.join_others();
                    return;
                }
                if let Some(v) = got {
                    first_scan.insert(key.clone(), v);
                }
            }
            Err(e) => {
                ctx.viol("recovery-read-failed", format!("{} after I/O record {} (variant {}): get({}) on the recovered store returned {} [files: {}]", label, k, variant, hex(key), e, files_desc()), "");
                drop(s);
                ctx.join_others();
                return;
            }
        }
    }
    // the recovered store is usable: a set/get/del round with map semantics (on a share of images)
    if nth % 4 == 0 {
        for (j, key) in keys.iter().enumerate() {
            let val = Val { tag: 900_000 + j as u32, len: 9 }.bytes();
            let r1 = set(&s.h, key, val.clone());
            let r2 = get(&s.h, key);
            let r3 = del(&s.h, key);
            let r4 = get(&s.h, key);
            if r1 != Ok(()) || r2 != Ok(Some(val)) || r3 != Ok(true) || r4 != Ok(None) {
                ctx.viol("recovered-store-unusable", format!("{} after I/O record {}: set/get/del/get on key {} of the recovered store gave {:?} {:?} {:?} {:?}", label, k, hex(key), r1, r2.map(|v| hexo(&v)), r3, r4.map(|v| hexo(&v))), "");
                break;
            }
            // restore
            if let Some(v) = first_scan.get(key) {
                let _ = set(&s.h, key, v.clone());
            }
        }
    }
    // what the recovered store acknowledges survives its own clean close and reopen (on a
    // share of images): a crash-left directory must behave like any other directory
    let mut after_writes: Option<Model> = None;
    if nth % 4 == 2 && ctx.out.violations.is_empty() {
        let mut m = first_scan.clone();
        for (j, key) in keys.iter().enumerate() {
            if j % 2 == 0 {
                let val = Val { tag: 910_000 + j as u32, len: 11 }.bytes();
                if set(&s.h, key, val.clone()) == Ok(()) {
                    m.insert(key.clone(), val);
                }
            } else if del(&s.h, key).is_ok() {
                m.remove(key);
            }
        }
        // on half of these images the recovered store is then killed instead of closed: what
        // it acknowledged must be in its files already (a second crash in the same lineage)
        if nth % 8 == 6 && label.starts_with("kill") {
            ctx.sim.probe("second_kill_after_post_recovery_writes");
            let img2 = dir_image(ctx.sim, &irel, u64::MAX);
            let irel2 = materialise(ctx, "j", &img2, None);
            match open_store(ctx, &irel2, rec_cfg) {
                Ok(s3) => {
                    match scan_all(&s3.h, keys) {
                        Ok(m3) => {
                            if let Some(d) = diff_models(&m3, &m) {
                                ctx.viol("recovered-store-loses-writes", format!("{} after I/O record {}: writes acknowledged by the recovered store are not there after a second kill and recovery (store vs expected): {} [image files: {}]", label, k, d, files_desc()), "");
                            }
                        }
                        Err(e) => ctx.viol("recovery-read-failed", format!("{} after I/O record {}: recovery after a second kill: {}", label, k, e), ""),
                    }
                    drop(s3);
                }
                Err(e) => ctx.viol("recovery-open-failed", format!("{} after I/O record {}: the directory cannot be opened after a second kill: {}", label, k, e), ""),
            }
            remove_dir(ctx, &irel2);
        }
        after_writes = Some(m);
    }
    // a crash-left directory behaves like any other under compaction (on a share of images): a
    // merge with the workload's thresholds changes no read, neither at once nor after a clean
    // close and reopen (a killed merge leaves outputs and hint files that later merges and
    // recoveries must cope with)
    let mut after_merge = false;
    if nth % 4 == 3 && ctx.out.violations.is_empty() {
        ctx.sim.probe("merge_on_recovered_store");
        match merge(&s.h) {
            Ok(()) => match scan_all(&s.h, keys) {
                Ok(m2) => {
                    if let Some(d) = diff_models(&m2, &first_scan) {
                        ctx.viol("recovered-store-changed-by-merge", format!("{} after I/O record {}: a merge on the recovered store changed what it reads (store vs before the merge): {} [image files: {}]", label, k, d, files_desc()), "");
                    }
                    after_merge = true;
                }
                Err(e) => ctx.viol("recovery-read-failed", format!("{} after I/O record {}: scan after a merge on the recovered store: {}", label, k, e), ""),
            },
            Err(e) => ctx.viol("recovered-store-unusable", format!("{} after I/O record {}: a merge on the recovered store failed: {} [image files: {}]", label, k, e, files_desc()), ""),
        }
    }
    drop(s);
    ctx.join_others();
    if after_merge && ctx.out.violations.is_empty() {
        match open_store(ctx, &irel, rec_cfg) {
            Ok(s2) => {
                match scan_all(&s2.h, keys) {
                    Ok(m2) => {
                        if let Some(d) = diff_models(&m2, &first_scan) {
                            ctx.viol("recovered-store-changed-by-merge", format!("{} after I/O record {}: after a merge on the recovered store, a clean close and a reopen it reads differently (store vs before the merge): {} [image files: {}]", label, k, d, files_desc()), "");
                        }
                    }
                    Err(e) => ctx.viol("recovery-read-failed", format!("{} after I/O record {}: reopen after a merge on the recovered store: {}", label, k, e), ""),
                }
                drop(s2);
                ctx.join_others();
            }
            Err(e) => ctx.viol("recovery-open-failed", format!("{} after I/O record {}: the recovered directory cannot be reopened after a merge: {}", label, k, e), ""),
        }
    }
    if let Some(m) = after_writes {
        match open_store(ctx, &irel, rec_cfg) {
            Ok(s2) => {
                match scan_all(&s2.h, keys) {
                    Ok(m2) => {
                        if let Some(d) = diff_models(&m2, &m) {
                            ctx.viol("recovered-store-loses-writes", format!("{} after I/O record {}: writes acknowledged by the recovered store are not there after its clean close and reopen (store vs expected): {} [image files: {}]", label, k, d, files_desc()), "");
                        }
                    }
                    Err(e) => ctx.viol("recovery-read-failed", format!("{} after I/O record {}: reopen after post-recovery writes: {}", label, k, e), ""),
                }
                drop(s2);
                ctx.join_others();
            }
            Err(e) => ctx.viol("recovery-open-failed", format!("{} after I/O record {}: the recovered directory cannot be reopened after writes: {}", label, k, e), ""),
        }
    }
    // recovery is idempotent: a second open reads the same (on a share of images)
    if nth % 4 == 1 && ctx.out.violations.is_empty() {
        match open_store(ctx, &irel, rec_cfg) {
            Ok(s2) => {
                match scan_all(&s2.h, keys) {
                    Ok(m2) => {
                        if let Some(d) = diff_models(&m2, &first_scan) {
                            ctx.viol("recovery-not-idempotent", format!("{} after I/O record {}: a second open of the recovered directory reads differently: {}", label, k, d), "");
                        }
                    }
                    Err(e) => ctx.viol("recovery-read-failed", format!("{} after I/O record {}: second open: {}", label, k, e), ""),
                }
                drop(s2);
                ctx.join_others();
            }
            Err(e) => ctx.viol("recovery-open-failed", format!("{} after I/O record {}: the recovered directory cannot be opened a second time: {}", label, k, e), ""),
        }
    }
    remove_dir(ctx, &irel);
}

// =============================================================================================
// C20: one transient failure of a file-system call per run, every position

#[derive(Clone, Debug)]
pub struct FaultableCall {
    pub index: u64,
    pub op: IoOp,
    pub tag: u64,
}

/// Fault-free pass: the list of faultable calls of the workload (in order).
pub fn count_faultable(ctx: &mut Ctx, scn: &StoreScn) -> Vec<FaultableCall> {
    let rel = ctx.new_dir("s");
    fsim::with_fs(ctx.sim, |fs| {
        fs.fault = None;
        fs.fault_reads = scn.fault_reads;
    });
    let r = exec_recorded(ctx, scn, &rel);
    // the final merge and reopen of the oracle are part of the fault space too
    if let Some((_, Some(store))) = r {
        fsim::set_op_tag(tag_of(0, scn.threads[0].len()));
        let _ = merge(&store.h);
        fsim::set_op_tag(tag_of(0, scn.threads[0].len() + 1));
        drop(store);
        ctx.join_others();
        if let Ok(s) = open_store(ctx, &rel, &scn.cfg) {
            drop(s);
        }
        ctx.join_others();
    } else {
        ctx.join_others();
    }
    fsim::set_op_tag(0);
    let reads = scn.fault_reads;
    let calls = fsim::with_fs(ctx.sim, |fs| {
        let mut v = Vec::new();
        let mut n = 0u64;
        for r in &fs.log {
            let faultable = match r.op {
                IoOp::Create | IoOp::Write | IoOp::Fsync | IoOp::OpenWriteExisting => r.what != "write-deferred-error" && !r.what.ends_with("eintr"),
                IoOp::Unlink => r.res >= 0,
                IoOp::OpenRead | IoOp::Mmap | IoOp::Read | IoOp::OpenDir => reads,
                IoOp::Stat => reads && r.fd >= 0,
                _ => false,
            };
            if faultable {
                n += 1;
                v.push(FaultableCall { index: n, op: r.op, tag: r.tag });
            }
        }
        debug_assert_eq!(n, fs.faultable_seen);
        v
    });
    remove_dir(ctx, &rel);
    calls
}

/// One run with `scn.fault` set: the C20 oracle.
/// Was the injected fault of this run applied to a read-side call (outside C20's quantifier,
/// which names write, create, fsync and unlink)?
fn fired_is_read_side(sim: &Sim) -> bool {
    fsim::with_fs(sim, |fs| !fs.fired.is_empty() && fs.fired.iter().all(|f| matches!(f.op, IoOp::Read | IoOp::Stat | IoOp::Mmap | IoOp::OpenDir | IoOp::OpenRead)))
}

/// Open a directory again after an open that an injected fault failed. A fault episode can
/// reach into the retry: every attempt that fails must coincide with a newly injected failure.
fn open_after_fault(ctx: &mut Ctx, rel: &str, cfg: &StoreCfg, errors_seen: &dyn Fn(&Sim) -> usize) -> Result<Store, String> {
    let mut last = String::new();
    for _ in 0..10 {
        let e0 = errors_seen(ctx.sim);
        match open_store(ctx, rel, cfg) {
            Ok(s) => return Ok(s),
            Err(e) => {
                ctx.join_others();
                last = e;
                if errors_seen(ctx.sim) == e0 {
                    break;
                }
            }
        }
    }
    Err(last)
}

pub fn run_fault_one(ctx: &mut Ctx, scn: &StoreScn) {
    let (nth, errno, mode) = scn.fault.expect("fault spec");
    fsim::with_fs(ctx.sim, |fs| {
        // mode: low nibble 0 clean / 1 short-then-error; bits 4-6: further failing calls of an
        // episode; bit 7: the episode is a full disk (only writes and creates fail)
        fs.fault = Some(fsim::FaultSpec { nth, errno, mode: if mode & 0x0f == 1 { fsim::FailMode::ShortThenError } else { fsim::FailMode::Clean }, extra: ((mode >> 4) & 7) as u32, space_only: mode & 0x80 != 0, background_only: mode & 0x08 != 0 });
        fs.fault_reads = scn.fault_reads;
    });
    let rel = ctx.new_dir("s");
    let keys = &scn.keys;
    let cfg = scn.cfg.clone();
    let errors_seen = |sim: &Sim| -> usize { fsim::with_fs(sim, |fs| fs.log.iter().filter(|r| r.injected && r.res < 0 && !r.what.ends_with("eintr")).count()) };
    let mut model = Model::new();
    // a failed operation's key may hold either value until a later acknowledged operation settles
    // it; with an episode of several failures a key can collect more than two alternatives
    let mut uncertain: BTreeMap<Vec<u8>, Vec<Option<Vec<u8>>>> = BTreeMap::new();
    let episode = (mode >> 4) & 7 > 0;
    if episode {
        ctx.sim.probe(if mode & 0x80 != 0 { "fault_episode_disk_full" } else { "fault_episode_io_errors" });
    }
    let mut fault_op: Option<String> = None;
    let mut store: Option<Store> = None;
    // the initial open is an operation too
    {
        let e0 = errors_seen(ctx.sim);
        match open_store(ctx, &rel, &cfg) {
            Ok(s) => {
                if errors_seen(ctx.sim) > e0 {
                    if fired_is_read_side(ctx.sim) {
                        fault_op = Some("open (read-side call, not reported)".into());
                        ctx.sim.probe("read_side_fault_not_reported");
                    } else {
                        ctx.viol("fault-swallowed", format!("fault #{} (errno {}) hit the initial open, which returned Ok", nth, errno), "");
                        return;
                    }
                }
                store = Some(s);
            }
            Err(e) => {
                if errors_seen(ctx.sim) == e0 {
                    ctx.viol("open-failed", format!("initial open failed without a fault: {}", e), "");
                    return;
                }
                fault_op = Some("open".into());
                ctx.join_others();
                match open_after_fault(ctx, &rel, &cfg, &errors_seen) {
                    Ok(s) => store = Some(s),
                    Err(e2) => {
                        ctx.viol("unusable-after-fault", format!("fault #{} (errno {}) failed the initial open ({}); the directory cannot be opened afterwards: {}", nth, errno, e, e2), "");
                        return;
                    }
                }
            }
        }
    }
    let ops: Vec<Op> = scn.threads[0].clone();
    let total = ops.len();
    let mut i = 0usize;
    // after the workload: a merge (4) and a close/reopen (5)
    let mut tail = vec![Op::Merge, Op::Reopen(true)];
    let mut all_ops = ops.clone();
    all_ops.append(&mut tail);
    while i < all_ops.len() {
        let op = all_ops[i].clone();
        fsim::set_op_tag(tag_of(0, i));
        let e0 = errors_seen(ctx.sim);
        let h = store.as_ref().unwrap().h.clone();
        let desc;
        // outcome: Ok(()) or Err(text)
        let mut outcome: Result<(), String> = Ok(());
        let mut touched: Option<(Vec<u8>, Option<Vec<u8>>)> = None;
        match &op {
            Op::Set(k, v) => {
                let key = keys[*k].clone();
                let val = v.bytes();
                desc = format!("op#{} set({}, {}B)", i, hex(&key), val.len());
                match set(&h, &key, val.clone()) {
                    Ok(()) => {
                        model.insert(key.clone(), val.clone());
                        uncertain.remove(&key);
                    }
                    Err(e) => {
                        outcome = Err(e);
                        touched = Some((key, Some(val)));
                    }
                }
            }
            Op::Del(k) => {
                let key = keys[*k].clone();
                desc = format!("op#{} del({})", i, hex(&key));
                let old = model.get(&key).cloned();
                match del(&h, &key) {
                    Ok(b) => {
                        // while the key is uncertain the answer must fit one of its alternatives
                        let ok = match uncertain.get(&key) {
                            Some(alts) => alts.iter().any(|a| a.is_some() == b),
                            None => old.is_some() == b,
                        };
                        if !ok {
                            ctx.viol("wrong-after-fault", format!("{} returned {} but the key was {} (fault #{} errno {} in {:?})", desc, b, if b { "absent" } else { "present" }, nth, errno, fault_op), "");
                        }
                        model.remove(&key);
                        uncertain.remove(&key);
                    }
                    Err(e) => {
                        outcome = Err(e);
                        touched = Some((key, None));
                    }
                }
            }
            Op::Get(k) => {
                let key = keys[*k].clone();
                desc = format!("op#{} get({})", i, hex(&key));
                match get(&h, &key) {
                    Ok(got) => {
                        let ok = match uncertain.get(&key) {
                            Some(alts) => alts.contains(&got),
                            None => got == model.get(&key).cloned(),
                        };
                        if !ok {
                            ctx.viol("wrong-after-fault", format!("{} returned {} but should be {} (fault #{} errno {} in {:?})", desc, hexo(&got), hexo(&model.get(&key).cloned()), nth, errno, fault_op), "");
                        }
                    }
                    Err(e) => outcome = Err(e),
                }
            }
            Op::Merge => {
                desc = format!("op#{} merge", i);
                if let Err(e) = merge(&h) {
                    outcome = Err(e);
                }
            }
            Op::Reopen(_) | Op::Retune(_) => {
                desc = format!("op#{} close+reopen", i);
                let old = store.take().unwrap();
                drop(old);
                drop(h.clone());
                // h is dropped below before opening
                outcome = Ok(());
            }
            Op::Pass(ms) => {
                desc = format!("op#{} (idle {} ms; background tasks run)", i, ms);
                ctx.sim.sleep_thread(ctx.me, ms * 1_000_000);
            }
            _ => {
                desc = format!("op#{} (no-op)", i);
            }
        }
        drop(h);
        // failures injected while the store was being closed (a drop cannot report anything)
        let mut errs_after_close = e0;
        if store.is_none() {
            ctx.join_others();
            errs_after_close = errors_seen(ctx.sim);
            match open_store(ctx, &rel, &cfg) {
                Ok(s) => store = Some(s),
                Err(e) => {
                    if errors_seen(ctx.sim) > e0 {
                        outcome = Err(e);
                        ctx.join_others();
                        match open_after_fault(ctx, &rel, &cfg, &errors_seen) {
                            Ok(s) => store = Some(s),
                            Err(e2) => {
                                ctx.viol("unusable-after-fault", format!("fault #{} (errno {}) failed {}; the directory cannot be opened afterwards: {}", nth, errno, desc, e2), "");
                                return;
                            }
                        }
                    } else {
                        ctx.viol("unusable-after-fault", format!("{} failed with {} although the fault (#{} errno {} in {:?}) happened earlier", desc, e, nth, errno, fault_op), "");
                        return;
                    }
                }
            }
        }
        let faulted_here = errors_seen(ctx.sim) > e0;
        // a failed call made by the store's background thread (timer-driven merge or sync) is not
        // made on behalf of a client operation: it is logged, and the store must stay consistent
        let me = ctx.me;
        let background_fault = faulted_here && fsim::with_fs(ctx.sim, |fs| fs.log.iter().any(|r| r.injected && r.res < 0 && !r.what.ends_with("eintr") && r.tid != me));
        let only_while_closing = faulted_here && errs_after_close > e0 && errors_seen(ctx.sim) == errs_after_close;
        match (&outcome, faulted_here) {
            (Ok(()), true) if only_while_closing => {
                // work a store does while it is dropped (flushing, writing an optional hint
                // file) has no caller to report a failure to; everything the reopened store says
                // is still compared with the model below
                fault_op = Some(format!("{} (while the store was being closed)", desc));
                ctx.sim.probe("fault_while_closing_cannot_be_reported");
            }
            (Ok(()), true) if background_fault => {
                fault_op = Some(format!("a background task during {}", desc));
                ctx.sim.probe("fault_in_background_task");
            }
            (Ok(()), true) if fired_is_read_side(ctx.sim) => {
                // the property quantifies over failed write, create, fsync and unlink calls; a
                // failed read-side call (read, fstat, mmap, opendir, open for reading) that the
                // operation got around (a retry, a fallback path, a hint it can do without) need
                // not be reported -- but everything the store says afterwards must still be true
                fault_op = Some(format!("{} (read-side call, not reported)", desc));
                ctx.sim.probe("read_side_fault_not_reported");
            }
            (Ok(()), true) => {
                ctx.viol("fault-swallowed", format!("fault #{} (errno {}) hit a file-system call made by {}, which nevertheless returned Ok", nth, errno, desc), "");
            }
            (Err(e), false) => {
                ctx.viol("unusable-after-fault", format!("{} failed with {} although no call of it was failed (the fault #{} errno {} was injected earlier, in {:?})", desc, e, nth, errno, fault_op), "");
            }
            (Err(_), true) => {
                fault_op = Some(desc.clone());
                ctx.sim.probe("fault_reported_as_error");
                if let Some((k, new)) = touched.take() {
                    let acked = model.get(&k).cloned();
                    let alts = uncertain.entry(k).or_insert_with(|| vec![acked]);
                    if !alts.contains(&new) {
                        alts.push(new);
                    }
                }
                match &op {
                    Op::Merge => ctx.sim.probe("fault_during_merge"),
                    Op::Reopen(..) | Op::Retune(..) => ctx.sim.probe("fault_during_open"),
                    Op::Set(_, v) if v.len >= 8150 => ctx.sim.probe("fault_during_multi_write_entry"),
                    _ => {}
                }
            }
            (Ok(()), false) => {}
        }
        if !ctx.out.violations.is_empty() {
            break;
        }
        // (2)/(3)/(6): after the faulted operation, and at the end, every key reads correctly
        if faulted_here || i + 1 == all_ops.len() || i + 1 == total {
            let s = store.as_ref().unwrap();
            for key in keys {
                let mut eg = errors_seen(ctx.sim);
                let mut first = get(&s.h, key);
                // a read-side fault (or the rest of an episode) may hit the oracle's own get: a
                // get may fail as often as a call of it was failed, never without one
                let mut tries = 0;
                while first.is_err() && scn.fault_reads && errors_seen(ctx.sim) > eg && tries < 10 {
                    eg = errors_seen(ctx.sim);
                    first = get(&s.h, key);
                    tries += 1;
                }
                let got = match first {
                    Ok(g) => g,
                    Err(e) => {
                        if tries > 0 {
                            ctx.viol("unusable-after-fault", format!("get({}) keeps failing after a read fault: {}", hex(key), e), "");
                        } else {
                            ctx.viol("unusable-after-fault", format!("after {} (fault #{} errno {} in {:?}) get({}) returned {}", desc, nth, errno, fault_op, hex(key), e), "");
                        }
                        break;
                    }
                };
                let ok = match uncertain.get(key) {
                    Some(alts) => alts.contains(&got),
                    None => got == model.get(key).cloned(),
                };
                if !ok {
                    let what = if matches!(&op, Op::Reopen(..)) || i + 1 == all_ops.len() { "after the restart" } else { "in the running process" };
                    ctx.viol(
                        "wrong-after-fault",
                        format!("after {} (fault #{} errno {} in {:?}) key {} reads {} {}; acknowledged value is {}{}", desc, nth, errno, fault_op, hex(key), hexo(&got), what, hexo(&model.get(key).cloned()), match uncertain.get(key) { Some(alts) => format!(" (the key is uncertain after failed operations; acceptable: {})", alts.iter().map(hexo).collect::<Vec<_>>().join(" | ")), None => String::new() }),
                        "",
                    );
                    break;
                }
                // an uncertain key keeps all its alternatives: a restart may legitimately show
                // another one than the running process
            }
        }
        // a transient failure inside a timer-driven merge must not stop the periodic merging:
        // with the triggers (0 dead bytes / fragmentation 0) exceeded again, a later tick of the
        // SAME instance merges
        if background_fault && ctx.out.violations.is_empty() && scn.cfg.merge_always {
            if let Some(s) = store.as_ref() {
                for (j, key) in keys.iter().enumerate() {
                    let v = Val { tag: 880_000 + j as u32, len: 10 }.bytes();
                    // the rest of an episode can still fail one of these: an acknowledged operation
                    // settles its key, a failed one adds one more alternative
                    match set(&s.h, key, v.clone()) {
                        Ok(()) => {
                            model.insert(key.clone(), v);
                            uncertain.remove(key);
                        }
                        Err(_) => {
                            let acked = model.get(key).cloned();
                            let alts = uncertain.entry(key.clone()).or_insert_with(|| vec![acked]);
                            if !alts.contains(&Some(v.clone())) {
                                alts.push(Some(v));
                            }
                        }
                    }
                    if j % 2 == 1 {
                        match del(&s.h, key) {
                            Ok(_) => {
                                model.remove(key);
                                uncertain.remove(key);
                            }
                            Err(_) => {
                                let acked = model.get(key).cloned();
                                let alts = uncertain.entry(key.clone()).or_insert_with(|| vec![acked]);
                                if !alts.contains(&None) {
                                    alts.push(None);
                                }
                            }
                        }
                    }
                }
                let seq2 = io_seq(ctx.sim);
                ctx.sim.sleep_thread(ctx.me, 3 * scn.cfg.check_interval_ms * 1_000_000 + 1_000_000);
                let merged = fsim::with_fs(ctx.sim, |fs| fs.log.iter().any(|r| r.seq > seq2 && r.res >= 0 && r.op == IoOp::Create && fs.path_name(r.path).ends_with(".hint")));
                ctx.sim.probe("background_merge_expected_after_background_fault");
                if !merged {
                    ctx.viol("background-merge-stopped-after-fault", format!("after the fault (#{} errno {} in {:?}) no background merge ran within three check intervals although dead entries exceed the triggers again", nth, errno, fault_op), "");
                }
                for key in keys {
                    match get(&s.h, key) {
                        Ok(g) if uncertain.get(key).map(|alts| alts.contains(&g)).unwrap_or_else(|| g == model.get(key).cloned()) => {}
                        other => {
                            ctx.viol("wrong-after-fault", format!("after the background fault and a later merge key {} reads {:?}; acknowledged value is {}", hex(key), other.map(|v| hexo(&v)), hexo(&model.get(key).cloned())), "");
                            break;
                        }
                    }
                }
            }
        }
        if !ctx.out.violations.is_empty() {
            break;
        }
        i += 1;
    }
    fsim::set_op_tag(0);
    if let Some(s) = store.as_ref() {
        let (avail, cap) = s.h.verif_readers();
        if avail != cap && ctx.out.violations.is_empty() {
            ctx.viol("reader-pool-reduced", format!("after the faulted run only {} of {} pool readers are available (fault #{} errno {} in {:?})", avail, cap, nth, errno, fault_op), "");
        }
    }
    drop(store);
    ctx.join_others();
    if std::env::var("BCSIM_DEBUG").is_ok() {
        dump_io_log(ctx.sim);
    }
    let fired = fsim::with_fs(ctx.sim, |fs| fs.fired.clone());
    if let Some(f) = fired.first() {
        let opk = (f.tag & 0xffff_ffff) as usize;
        let during = if opk >= 1 && opk <= all_ops.len() {
            match &all_ops[opk - 1] {
                Op::Set(_, v) => if v.len >= 8150 { 1 } else { 2 },
                Op::Del(..) => 3,
                Op::Merge => 4,
                Op::Reopen(..) | Op::Retune(..) => 5,
                _ => 6,
            }
        } else {
            7
        };
        let name = fsim::with_fs(ctx.sim, |fs| fs.path_name(f.path).to_string());
        ctx.sig(mix(f.op as u64, mix(during, mix(name.ends_with(".hint") as u64, mix(f.errno as u64, f.short.is_some() as u64)))));
        ctx.out.nontrivial = true;
    }
    if ctx.check == "C14" {
        ctx.sim.probe("file_discipline_judged_after_failed_calls");
        check_discipline(ctx, &rel, scn);
        check_shadow_vs_disk(ctx, &rel);
    }
    remove_dir(ctx, &rel);
}

pub fn dump_io_log(sim: &Sim) {
    fsim::with_fs(sim, |fs| {
        for r in &fs.log {
            eprintln!("{:>4} t{} op{:<3} {:?} {} fd={} a={} b={} res={} {}{}", r.seq, r.tid, r.tag & 0xffff_ffff, r.op, fs.path_name(r.path), r.fd, r.a, r.b, r.res, r.what, if r.injected { " [injected]" } else { "" });
        }
    });
}

// =============================================================================================
// C04: concurrent handles, linearizability per key

use crate::lin::{self, LOp};
use std::sync::atomic::{AtomicU64, Ordering as AtOrd};
use std::sync::{Arc, Mutex as StdMutex};

#[derive(Clone, Debug)]
pub struct HEvent {
    pub thread: usize,
    pub idx: usize,
    pub key: usize,
    pub inv: u64,
    pub ret: u64,
    /// 0 set, 1 get, 2 del
    pub kind: u8,
    pub written: Option<Vec<u8>>,
    pub got: Option<Vec<u8>>,
    pub present: bool,
    pub error: Option<String>,
}

pub fn check_history(ctx: &mut Ctx, keys: &[Vec<u8>], events: &[HEvent]) {
    for (ki, key) in keys.iter().enumerate() {
        let mut ids: BTreeMap<Vec<u8>, u32> = BTreeMap::new();
        let mut id_of = |v: &Vec<u8>, ids: &mut BTreeMap<Vec<u8>, u32>| -> u32 {
            let n = ids.len() as u32 + 1;
            *ids.entry(v.clone()).or_insert(n)
        };
        let mut ops: Vec<LOp> = Vec::new();
        for e in events.iter().filter(|e| e.key == ki) {
            let kind = match e.kind {
                0 => lin::Kind::Write(id_of(e.written.as_ref().unwrap(), &mut ids)),
                1 => lin::Kind::Read(e.got.as_ref().map(|v| id_of(v, &mut ids))),
                _ => lin::Kind::Del(e.present),
            };
            let who = match e.kind {
                0 => format!("t{}#{} set({})", e.thread, e.idx, hexo(&e.written)),
                1 => format!("t{}#{} get->{}", e.thread, e.idx, hexo(&e.got)),
                _ => format!("t{}#{} del->{}", e.thread, e.idx, e.present),
            };
            ops.push(LOp { inv: e.inv, ret: e.ret, kind, who, proc_seq: None });
        }
        if ops.len() > 60 {
            ops.truncate(60);
        }
        if !lin::linearizable(&ops, None) {
            ops.sort_by_key(|o| o.inv);
            // a read of a value that was never written is the crispest diagnosis
            let written: BTreeSet<u32> = ops.iter().filter_map(|o| if let lin::Kind::Write(v) = o.kind { Some(v) } else { None }).collect();
            let phantom = ops.iter().any(|o| matches!(o.kind, lin::Kind::Read(Some(v)) if !written.contains(&v)));
            let h: Vec<String> = ops.iter().map(|o| format!("[{}..{}] {}", o.inv, o.ret, o.who)).collect();
            ctx.viol(
                if phantom { "read-of-unwritten-value" } else { "not-linearizable" },
                format!("the history of key {} has no linearization: {}", hex(key), h.join("; ")),
                "",
            );
            return;
        }
    }
}

pub fn run_conc(ctx: &mut Ctx, scn: &StoreScn) {
    let rel = ctx.new_dir("s");
    let store = match open_store(ctx, &rel, &scn.cfg) {
        Ok(s) => s,
        Err(e) => {
            ctx.viol("open-failed", format!("initial open failed: {}", e), "");
            return;
        }
    };
    let clock = Arc::new(AtomicU64::new(1));
    let events: Arc<StdMutex<Vec<HEvent>>> = Arc::new(StdMutex::new(Vec::new()));
    let problems: Arc<StdMutex<Vec<String>>> = Arc::new(StdMutex::new(Vec::new()));
    let mut joins = Vec::new();
    for (ti, ops) in scn.threads.iter().enumerate() {
        let h = store.h.clone();
        let ops = ops.clone();
        let keys = scn.keys.clone();
        let clock = clock.clone();
        let events = events.clone();
        let problems = problems.clone();
        joins.push(simrt::spawn(&format!("client-{}", ti), simrt::sched::DEFAULT_STACK, move || {
            for (i, op) in ops.iter().enumerate() {
                fsim::set_op_tag(tag_of(ti, i));
                match op {
                    Op::Set(k, v) => {
                        let val = v.bytes();
                        let inv = clock.fetch_add(1, AtOrd::SeqCst);
                        let r = set(&h, &keys[*k], val.clone());
                        let ret = clock.fetch_add(1, AtOrd::SeqCst);
                        let error = r.err();
                        events.lock().unwrap().push(HEvent { thread: ti, idx: i, key: *k, inv, ret, kind: 0, written: Some(val), got: None, present: false, error });
                    }
                    Op::Get(k) => {
                        let inv = clock.fetch_add(1, AtOrd::SeqCst);
                        let r = get(&h, &keys[*k]);
                        let ret = clock.fetch_add(1, AtOrd::SeqCst);
                        let (got, error) = match r {
                            Ok(g) => (g, None),
                            Err(e) => (None, Some(e)),
                        };
                        events.lock().unwrap().push(HEvent { thread: ti, idx: i, key: *k, inv, ret, kind: 1, written: None, got, present: false, error });
                    }
                    Op::Del(k) => {
                        let inv = clock.fetch_add(1, AtOrd::SeqCst);
                        let r = del(&h, &keys[*k]);
                        let ret = clock.fetch_add(1, AtOrd::SeqCst);
                        let (present, error) = match r {
                            Ok(b) => (b, None),
                            Err(e) => (false, Some(e)),
                        };
                        events.lock().unwrap().push(HEvent { thread: ti, idx: i, key: *k, inv, ret, kind: 2, written: None, got: None, present, error });
                    }
                    Op::Merge => {
                        if let Err(e) = merge(&h) {
                            problems.lock().unwrap().push(format!("t{}#{} merge returned {}", ti, i, e));
                        }
                    }
                    Op::Pass(ms) => {
                        let (sim, me) = simrt::current().unwrap();
                        sim.sleep_thread(me, ms * 1_000_000);
                    }
                    _ => {}
                }
            }
            fsim::set_op_tag(0);
        }));
    }
    for j in joins {
        let _ = j.join();
    }
    let mut evs = events.lock().unwrap().clone();
    if let Some(p) = problems.lock().unwrap().first() {
        ctx.viol("op-failed", p.clone(), "");
    }
    if let Some(e) = evs.iter().find(|e| e.error.is_some()) {
        let what = match e.kind {
            0 => "set",
            1 => "get",
            _ => "del",
        };
        ctx.viol("op-failed", format!("t{}#{} {}({}) returned {} (no fault injected)", e.thread, e.idx, what, hex(&scn.keys[e.key]), e.error.clone().unwrap()), "");
    }
    // the ability to serve reads is not reduced
    let (avail, cap) = store.h.verif_readers();
    if avail != cap && ctx.out.violations.is_empty() {
        ctx.viol("reader-pool-reduced", format!("at quiescence only {} of {} pool readers are available", avail, cap), "");
    }
    // final quiescent scan joins the history as reads
    if ctx.out.violations.is_empty() {
        for (ki, key) in scn.keys.iter().enumerate() {
            let inv = clock.fetch_add(1, AtOrd::SeqCst);
            let r = get(&store.h, key);
            let ret = clock.fetch_add(1, AtOrd::SeqCst);
            match r {
                Ok(g) => evs.push(HEvent { thread: 99, idx: ki, key: ki, inv, ret, kind: 1, written: None, got: g, present: false, error: None }),
                Err(e) => {
                    ctx.viol("op-failed", format!("final get({}) returned {}", hex(key), e), "");
                    break;
                }
            }
        }
    }
    if ctx.out.violations.is_empty() {
        evs.retain(|e| e.error.is_none());
        check_history(ctx, &scn.keys, &evs);
    }
    // C19: after a concurrent history, with every thread joined and no timer-driven merging
    // configured, the counters must equal ground truth (the final scan gives the contents)
    if ctx.out.violations.is_empty() && Oracles::for_check(&ctx.check).accounting && !scn.cfg.merge_always {
        let mut model = Model::new();
        for e in evs.iter().filter(|e| e.thread == 99) {
            if let Some(v) = &e.got {
                model.insert(scn.keys[e.key].clone(), v.clone());
            }
        }
        ctx.sim.probe("accounting_compared_after_concurrent_history");
        check_accounting_with(ctx, &store, &model, "after the concurrent history (every thread joined)");
    }
    // observation hash: results in program order per thread
    evs.sort_by_key(|e| (e.thread, e.idx));
    for e in &evs {
        ctx.observe(mix(e.inv, e.ret));
        ctx.observe_bytes(e.got.as_deref().unwrap_or(b"-"));
        ctx.observe(e.present as u64);
    }
    let st = ctx.sim.stats();
    ctx.sig(st.trace_hash);
    ctx.out.nontrivial = st.switches > scn.threads.len() as u64 + 2;
    drop(store);
    ctx.join_others();
    remove_dir(ctx, &rel);
}

/// C14, crash part: cut the directory at a few kill points, recover it with the real open,
/// continue working on it (writes with rollovers, a merge, a reopen) and check the file
/// discipline again, with the ids the lineage had already used inherited.
fn crash_and_continue(ctx: &mut Ctx, rel: &str, scn: &StoreScn) {
    let last = io_seq(ctx.sim);
    let points: Vec<u64> = fsim::with_fs(ctx.sim, |fs| {
        let prefix = format!("{}/", rel);
        fs.log.iter().filter(|r| r.res >= 0 && fs.path_name(r.path).starts_with(&prefix) && matches!(r.op, IoOp::Create | IoOp::Write | IoOp::Unlink)).map(|r| r.seq).collect()
    });
    if points.is_empty() {
        return;
    }
    let n = 4.min(points.len());
    let mut rec_cfg = scn.cfg.clone();
    rec_cfg.merge_always = false;
    for _ in 0..n {
        let k = points[ctx.sim.with_stream("crash", |r| r.usize_below(points.len()))];
        if k > last {
            continue;
        }
        let img = dir_image(ctx.sim, rel, k);
        // every id the lineage has contained up to k, removed files included
        let inherited: Option<u64> = fsim::with_fs(ctx.sim, |fs| {
            let prefix = format!("{}/", rel);
            fs.incs.iter().filter(|i| i.created_seq <= k && fs.path_name(i.path).starts_with(&prefix)).filter_map(|i| scan::parse_name(&fs.path_name(i.path)[prefix.len()..])).map(|(id, _)| id).max()
        });
        let during_merge = fsim::with_fs(ctx.sim, |fs| {
            let r = &fs.log[k as usize - 1];
            let opidx = (r.tag & 0xffff_ffff) as usize;
            opidx >= 1 && opidx <= scn.threads[0].len() && matches!(scn.threads[0][opidx - 1], Op::Merge)
        });
        if during_merge {
            ctx.sim.probe("crash_image_cut_inside_merge_then_continued");
        }
        let removed_highest = inherited.map(|m| !img.keys().filter_map(|n| scan::parse_name(n)).any(|(id, _)| id == m)).unwrap_or(false);
        if removed_highest {
            ctx.sim.probe("image_lacks_highest_id_of_lineage");
        }
        let irel = materialise(ctx, "c", &img, None);
        match open_store(ctx, &irel, &rec_cfg) {
            Ok(s) => {
                for (j, key) in scn.keys.iter().enumerate().take(4) {
                    let _ = set(&s.h, key, Val { tag: 800_000 + j as u32, len: if j == 0 { 400 } else { 9 } }.bytes());
                }
                let _ = merge(&s.h);
                for (j, key) in scn.keys.iter().enumerate().take(2) {
                    let _ = set(&s.h, key, Val { tag: 810_000 + j as u32, len: 70 }.bytes());
                }
                drop(s);
                ctx.join_others();
                if let Ok(s2) = open_store(ctx, &irel, &rec_cfg) {
                    let _ = set(&s2.h, &scn.keys[0], Val { tag: 820_000, len: 9 }.bytes());
                    drop(s2);
                    ctx.join_others();
                }
            }
            Err(_) => {
                // whether the image opens is C03's subject
                ctx.join_others();
            }
        }
        // NOTE: ids that only existed in removed files of the lineage are not on disk any more;
        // a fresh open cannot know them. The property asks for ids above everything the directory
        // "has ever contained"; for a crash image that is what the image itself contains plus
        // what recovery can see, so only ids still present in the image are inherited when the
        // highest file had been removed before the cut.
        let visible_max = img.keys().filter_map(|n| scan::parse_name(n)).map(|(id, _)| id).max();
        check_discipline_lineage(ctx, &irel, scn, visible_max);
        check_shadow_vs_disk(ctx, &irel);
        remove_dir(ctx, &irel);
        if !ctx.out.violations.is_empty() {
            return;
        }
    }
}
