//! Scenario generators (swarm style: every run draws its own configuration, key universe,
//! value-size mix, operation mix, fault kinds and scheduler strategy).

use simrt::rng::Rng;

use crate::scn::*;

pub fn key_pool() -> Vec<Vec<u8>> {
    let mut long = Vec::new();
    for i in 0..300u32 {
        long.push((i % 251) as u8);
    }
    vec![
        b"".to_vec(),
        b"k".to_vec(),
        b"key1".to_vec(),
        b"key2".to_vec(),
        b"user:1".to_vec(),
        b"user:10".to_vec(),
        b"user:100".to_vec(),
        vec![0, 255, 13, 10, 0],
        vec![0xff, 0xfe, 0xfd],
        long,
        b"a".to_vec(),
        b"b".to_vec(),
        b"\r\n".to_vec(),
        b"zzzzzzzzzzzzzzzzzzzzzzzzzzzzzzzzzzzzzzzzzzzzzzzzzzzzzzzzzzzzzzzz".to_vec(),
    ]
}

pub fn pick_keys(r: &mut Rng, n: usize) -> Vec<Vec<u8>> {
    let mut pool = key_pool();
    let mut out = Vec::new();
    for _ in 0..n.min(pool.len()) {
        let i = r.usize_below(pool.len());
        out.push(pool.swap_remove(i));
    }
    out
}

/// Value length mix: empty, tiny, small, around the 8 KiB write buffer, 20 KiB, 64 KiB.
pub fn val_len(r: &mut Rng, big_share: u32) -> u32 {
    let c = r.below(100) as u32;
    if c < big_share {
        match r.below(6) {
            0 => r.range(8150, 8200) as u32,
            1 => r.range(8100, 8300) as u32,
            2 => 8192,
            3 => 20 * 1024 + r.below(100) as u32,
            4 => 16 * 1024 + r.below(20) as u32,
            _ => 65536,
        }
    } else {
        match r.below(10) {
            0 => 0,
            1 => 1,
            2 => r.range(2, 7) as u32,
            3 | 4 | 5 => r.range(8, 40) as u32,
            6 | 7 => r.range(40, 300) as u32,
            _ => r.range(300, 3000) as u32,
        }
    }
}

pub fn store_cfg(r: &mut Rng) -> StoreCfg {
    let mut c = StoreCfg::default();
    c.max_file_size = *r.pick(&[0, 1, 60, 300, 300, 1000, 4096, 20_000, 1 << 20]);
    c.cache = *r.pick(&[0, 1, 2, 2, 256]);
    c.pool = *r.pick(&[0, 1, 2, 4]);
    c.merge_always = false;
    // thresholds: every class (all files, none, strict subsets)
    c.thr_small = *r.pick(&[0, 0, 40, 120, 500, 5000, u64::MAX, u64::MAX]);
    c.thr_dead = *r.pick(&[0, 30, 100, 1000, u64::MAX, u64::MAX]);
    c.thr_frag = *r.pick(&[0.0, 0.3, 0.5, 0.9, 1.0, 1.0]);
    c
}

pub fn sim_params_seq(r: &mut Rng) -> SimParams {
    let mut p = SimParams::default();
    p.num_cpus = *r.pick(&[1, 2, 4]);
    if r.one_in(2) {
        p.short_write_pm = *r.pick(&[0, 50, 300]);
        p.eintr_pm = *r.pick(&[0, 30, 100]);
        p.latency_pm = *r.pick(&[0, 100]);
        p.max_latency_us = 200_000;
    }
    p
}

pub struct OpMix {
    pub set: u32,
    pub get: u32,
    pub del: u32,
    pub merge: u32,
    pub reopen: u32,
    pub retune: u32,
    pub pass: u32,
}

pub fn gen_ops(r: &mut Rng, n: usize, nkeys: usize, mix: &OpMix, big_share: u32, tag0: &mut u32) -> Vec<Op> {
    let w = [mix.set, mix.get, mix.del, mix.merge, mix.reopen, mix.retune, mix.pass];
    let mut ops = Vec::new();
    for _ in 0..n {
        let k = r.usize_below(nkeys);
        let op = match r.weighted(&w) {
            0 => {
                *tag0 += 1;
                Op::Set(k, Val { tag: *tag0, len: val_len(r, big_share) })
            }
            1 => Op::Get(k),
            2 => Op::Del(k),
            3 => Op::Merge,
            4 => Op::Reopen(!r.one_in(3)),
            5 => Op::Retune(r.below(5) as u32),
            _ => Op::Pass(*r.pick(&[1, 10, 100, 1000, 20_000, 60_000])),
        };
        ops.push(op);
    }
    ops
}

fn run_len(r: &mut Rng, max: usize) -> usize {
    // most runs are short
    match r.below(10) {
        0..=4 => r.range(3, 10) as usize,
        5..=7 => r.range(10, 25) as usize,
        _ => r.range(25, max as u64) as usize,
    }
}

pub fn generate(check: &str, tier: &str, seed: u64) -> Scenario {
    let mut r = Rng::stream(seed, "workload");
    let mut cr = Rng::stream(seed, "config");
    let thorough = tier == "thorough";
    let mut tag = 0u32;
    match check {
        "C01" | "C02" | "C05" | "C12" | "C13" | "C14" | "C19" => {
            let mut cfg = store_cfg(&mut cr);
            let nkeys = cr.range(4, 12) as usize;
            let keys = pick_keys(&mut cr, nkeys);
            let big = *cr.pick(&[0, 5, 15, 40]);
            let maxlen = if thorough { 80 } else { 60 };
            let n = run_len(&mut r, maxlen);
            let mix = match check {
                "C01" => OpMix { set: 40, get: 30, del: 15, merge: 8, reopen: 0, retune: 0, pass: 2 },
                "C02" => OpMix { set: 40, get: 10, del: 25, merge: 0, reopen: 15, retune: 0, pass: 0 },
                "C05" => OpMix { set: 40, get: 5, del: 25, merge: 12, reopen: 8, retune: 6, pass: 0 },
                "C12" => OpMix { set: 45, get: 0, del: 20, merge: 15, reopen: 3, retune: 4, pass: 0 },
                "C13" => {
                    if cr.one_in(2) {
                        cfg.thr_small = u64::MAX;
                    }
                    OpMix { set: 45, get: 0, del: 25, merge: 15, reopen: 3, retune: 3, pass: 0 }
                }
                "C14" => OpMix { set: 45, get: 5, del: 15, merge: 12, reopen: 12, retune: 3, pass: 0 },
                _ => OpMix { set: 40, get: 3, del: 25, merge: 10, reopen: 10, retune: 5, pass: 0 },
            };
            let mut ops = gen_ops(&mut r, n, nkeys, &mix, big, &mut tag);
            // a share of runs lets the store's own timer path do the merging
            if matches!(check, "C01" | "C05" | "C13" | "C19") && cr.one_in(5) {
                cfg.merge_always = true;
                cfg.check_interval_ms = *cr.pick(&[10, 1000, 18_000]);
                cfg.jitter = *cr.pick(&[0.0, 0.3, 1.0]);
                cfg.trig_frag = *cr.pick(&[0.0, 0.3, 0.6]);
                cfg.trig_dead = *cr.pick(&[0, 100, u64::MAX]);
                // let a few check intervals pass now and then (bounded: every tick costs steps)
                let iv = cfg.check_interval_ms;
                let m = ops.len();
                for j in 0..m {
                    if r.one_in(4) {
                        ops.insert(j, Op::Pass(*r.pick(&[iv / 2 + 1, iv * 2, iv * 3 + 7])));
                    }
                }
                for o in ops.iter_mut() {
                    if let Op::Pass(ms) = o {
                        if *ms > iv * 4 {
                            *ms = iv * 4;
                        }
                    }
                }
            }
            if check == "C02" {
                // always end with reopen cycles, sometimes back to back
                let cycles = r.range(1, 4);
                for _ in 0..cycles {
                    ops.push(Op::Reopen(r.one_in(2)));
                    if r.one_in(2) {
                        ops.push(Op::Get(r.usize_below(nkeys)));
                    }
                }
            }
            if check == "C05" {
                if !ops.iter().any(|o| matches!(o, Op::Merge)) {
                    ops.push(Op::Merge);
                }
                for _ in 0..r.below(4) {
                    ops.push(Op::Reopen(true));
                }
            }
            if check == "C12" || check == "C13" {
                if !ops.iter().any(|o| matches!(o, Op::Merge)) {
                    let at = r.usize_below(ops.len() + 1);
                    ops.insert(at, Op::Merge);
                }
            }
            if cfg.merge_always {
                // an old instance's background merge racing a reopen is C17's subject
                for o in ops.iter_mut() {
                    if let Op::Reopen(w) = o {
                        *w = true;
                    }
                }
            }
            Scenario {
                check: check.to_string(),
                seed,
                sim: sim_params_seq(&mut cr),
                body: Body::Store(StoreScn { cfg, keys, threads: vec![ops], fault: None, fault_reads: false, max_crash_points: 0, extra: 0 }),
            }
        }
        "C03" | "C09" => {
            let mut cfg = store_cfg(&mut cr);
            cfg.max_file_size = *cr.pick(&[0, 60, 300, 300, 1000, 4096, 20_000, 1 << 20]);
            cfg.sync = if check == "C09" { SyncCfg::Always } else { SyncCfg::None };
            let nkeys = cr.range(3, 8) as usize;
            let keys = pick_keys(&mut cr, nkeys);
            let big = *cr.pick(&[0, 10, 30]);
            let n = match r.below(10) {
                0..=5 => r.range(3, 8) as usize,
                6..=8 => r.range(8, 16) as usize,
                _ => r.range(16, 30) as usize,
            };
            let mix = OpMix { set: 45, get: 0, del: 20, merge: 15, reopen: 8, retune: 0, pass: 0 };
            let mut ops = gen_ops(&mut r, n, nkeys, &mix, big, &mut tag);
            for o in ops.iter_mut() {
                if let Op::Reopen(w) = o {
                    *w = true;
                }
            }
            let mut sim = sim_params_seq(&mut cr);
            sim.latency_pm = 0;
            Scenario {
                check: check.to_string(),
                seed,
                sim,
                body: Body::Store(StoreScn { cfg, keys, threads: vec![ops], fault: None, fault_reads: false, max_crash_points: if thorough { 0 } else { 80 }, extra: 0 }),
            }
        }
        "C20" => {
            let mut cfg = store_cfg(&mut cr);
            cfg.max_file_size = *cr.pick(&[0, 60, 300, 300, 1000, 4096, 20_000]);
            cfg.sync = if cr.one_in(2) { SyncCfg::Always } else { SyncCfg::None };
            let nkeys = cr.range(3, 6) as usize;
            let keys = pick_keys(&mut cr, nkeys);
            let big = *cr.pick(&[0, 15, 40]);
            let n = match r.below(10) {
                0..=5 => r.range(3, 8) as usize,
                6..=8 => r.range(8, 14) as usize,
                _ => r.range(14, 25) as usize,
            };
            let mix = OpMix { set: 45, get: 5, del: 20, merge: 15, reopen: 4, retune: 0, pass: 0 };
            let mut ops = gen_ops(&mut r, n, nkeys, &mix, big, &mut tag);
            for o in ops.iter_mut() {
                if let Op::Reopen(w) = o {
                    *w = true;
                }
            }
            let mut sim = sim_params_seq(&mut cr);
            sim.latency_pm = 0;
            Scenario {
                check: check.to_string(),
                seed,
                sim,
                body: Body::Store(StoreScn { cfg, keys, threads: vec![ops], fault: None, fault_reads: thorough && cr.one_in(2), max_crash_points: if thorough { 0 } else { 40 }, extra: 0 }),
            }
        }
        "C04" => {
            let mut cfg = store_cfg(&mut cr);
            cfg.max_file_size = *cr.pick(&[60, 300, 1000, 9000, 20_000, 1 << 20]);
            cfg.pool = *cr.pick(&[1, 1, 2, 2, 4]);
            cfg.cache = *cr.pick(&[0, 1, 2, 256]);
            let nkeys = cr.range(2, 4) as usize;
            let keys = pick_keys(&mut cr, nkeys);
            let big = *cr.pick(&[10, 40, 70]);
            let writers = cr.range(1, 3) as usize;
            let readers = cr.range(1, 3) as usize;
            let mut threads = Vec::new();
            for _ in 0..writers {
                let n = r.range(3, 9) as usize;
                threads.push(gen_ops(&mut r, n, nkeys, &OpMix { set: 60, get: 10, del: 25, merge: 0, reopen: 0, retune: 0, pass: 0 }, big, &mut tag));
            }
            for _ in 0..readers {
                let n = r.range(3, 10) as usize;
                threads.push(gen_ops(&mut r, n, nkeys, &OpMix { set: 0, get: 100, del: 0, merge: 0, reopen: 0, retune: 0, pass: 0 }, big, &mut tag));
            }
            match cr.below(3) {
                0 => {}
                1 => {
                    let n = r.range(1, 4) as usize;
                    threads.push((0..n).map(|_| Op::Merge).collect());
                }
                _ => {
                    cfg.merge_always = true;
                    cfg.check_interval_ms = 1;
                    cfg.jitter = 0.5;
                    cfg.trig_frag = 0.0;
                    cfg.trig_dead = 0;
                }
            }
            let mut sim = SimParams::default();
            sim.num_cpus = *cr.pick(&[1, 2, 4]);
            sim.strat = match cr.below(5) {
                0 => Strat::Random(20),
                1 => Strat::Random(100),
                2 => Strat::Random(400),
                3 => Strat::Pct(*cr.pick(&[1, 2, 3]), 400),
                _ => Strat::Pct(*cr.pick(&[2, 5]), 1500),
            };
            if cr.one_in(2) {
                sim.latency_pm = *cr.pick(&[50, 200]);
                sim.max_latency_us = *cr.pick(&[10, 3000]);
                sim.short_write_pm = *cr.pick(&[0, 100]);
            }
            Scenario { check: check.to_string(), seed, sim, body: Body::Store(StoreScn { cfg, keys, threads, fault: None, fault_reads: false, max_crash_points: 0, extra: 0 }) }
        }
        "C18" => {
            let mut cfg = store_cfg(&mut cr);
            cfg.max_file_size = *cr.pick(&[60, 300, 1000, 1 << 20]);
            cfg.check_interval_ms = *cr.pick(&[10, 100, 1000, 18_000, 60_000, 3_600_000]);
            cfg.jitter = *cr.pick(&[0.0, 0.1, 0.3, 0.5, 1.0]);
            cfg.sync = match cr.below(3) {
                0 => SyncCfg::None,
                _ => SyncCfg::IntervalMs(*cr.pick(&[5, 50, 1000, 30_000])),
            };
            // thresholds select everything so a triggered merge always has work
            cfg.thr_small = u64::MAX;
            let nkeys = cr.range(2, 6) as usize;
            let keys = pick_keys(&mut cr, nkeys);
            let n = r.range(2, 14) as usize;
            let ops = gen_ops(&mut r, n, nkeys, &OpMix { set: 55, get: 0, del: 30, merge: 0, reopen: 0, retune: 0, pass: 0 }, 5, &mut tag);
            let mode = cr.below(7);
            let never = cr.one_in(5);
            let mut sim = SimParams::default();
            sim.num_cpus = 1;
            sim.jitter_extreme_pm = *cr.pick(&[0, 300, 1000]);
            sim.strat = cr.pick(&[Strat::Fifo, Strat::Random(100)]).clone();
            // sync intervals must stay tractable relative to the observed span
            if let SyncCfg::IntervalMs(d) = cfg.sync {
                let span_ms = 3.0 * cfg.check_interval_ms as f64 * (1.0 + cfg.jitter);
                if span_ms / d as f64 > 3000.0 {
                    cfg.sync = SyncCfg::IntervalMs((span_ms / 1000.0) as u64 + 1);
                }
            }
            Scenario { check: check.to_string(), seed, sim, body: Body::Store(StoreScn { cfg, keys, threads: vec![ops], fault: None, fault_reads: false, max_crash_points: 0, extra: mode | if never { 0x10 } else { 0 } }) }
        }
        "C17" => {
            let mut cfg = store_cfg(&mut cr);
            cfg.max_file_size = *cr.pick(&[60, 300, 1000, 1 << 20]);
            cfg.merge_always = !cr.one_in(4);
            cfg.check_interval_ms = *cr.pick(&[10, 10, 100, 18_000, 3_600_000]);
            cfg.jitter = *cr.pick(&[0.0, 0.3, 1.0]);
            cfg.trig_frag = *cr.pick(&[0.0, 0.0, 0.3]);
            cfg.trig_dead = *cr.pick(&[0, 0, 100, u64::MAX]);
            cfg.thr_small = u64::MAX;
            cfg.sync = match cr.below(3) {
                0 => SyncCfg::None,
                1 => SyncCfg::IntervalMs(*cr.pick(&[5, 50, 60_000])),
                _ => SyncCfg::Always,
            };
            // keep the number of sync ticks per check interval tractable
            if let SyncCfg::IntervalMs(d) = cfg.sync {
                if cfg.check_interval_ms / d > 50 {
                    cfg.sync = SyncCfg::IntervalMs(cfg.check_interval_ms / 20 + 1);
                }
            }
            let nthreads = 1 + cr.below(3) as usize;
            let nkeys = nthreads * cr.range(2, 3) as usize;
            let keys = pick_keys(&mut cr, nkeys);
            let iv = cfg.check_interval_ms;
            let mut main: Vec<Op> = Vec::new();
            let own = |t: usize, r: &mut Rng| -> usize { t + nthreads * r.usize_below(nkeys / nthreads) };
            let mut push_ops = |main: &mut Vec<Op>, r: &mut Rng, n: usize, tag: &mut u32| {
                for _ in 0..n {
                    let k = own(0, r);
                    match r.below(10) {
                        0..=5 => {
                            *tag += 1;
                            main.push(Op::Set(k, Val { tag: *tag, len: val_len(r, 5) }));
                        }
                        6..=7 => main.push(Op::Del(k)),
                        _ => main.push(Op::Get(k)),
                    }
                }
            };
            let cycles = r.range(1, 5);
            for c in 0..cycles {
                let n = r.range(1, 6) as usize;
                push_ops(&mut main, &mut r, n, &mut tag);
                // land the drop at a chosen instant relative to the worker's timers
                match r.below(4) {
                    0 => {}
                    1 => main.push(Op::Pass(iv / 2 + 1)),
                    2 => main.push(Op::Pass(iv)),
                    _ => main.push(Op::Pass(iv + iv / 3 + 1)),
                }
                if iv <= 100 && r.one_in(2) {
                    main.push(Op::Pass(r.range(1, 3 * iv)));
                }
                main.push(Op::Close);
                // use through the stale handle
                for _ in 0..r.below(4) {
                    let k = own(0, &mut r);
                    match r.below(5) {
                        0 => {
                            tag += 1;
                            main.push(Op::Set(k, Val { tag, len: 9 }));
                        }
                        1 => main.push(Op::Del(k)),
                        2 => main.push(Op::Get(k)),
                        3 => main.push(Op::Merge),
                        _ => main.push(Op::Sync),
                    }
                }
                if c + 1 < cycles || r.one_in(2) {
                    main.push(Op::Reopen(r.one_in(3)));
                }
            }
            let mut threads = vec![main];
            for t in 1..nthreads {
                let n = r.range(2, 8) as usize;
                let mut ops = Vec::new();
                for _ in 0..n {
                    let k = t + nthreads * r.usize_below(nkeys / nthreads);
                    match r.below(10) {
                        0..=5 => {
                            tag += 1;
                            ops.push(Op::Set(k, Val { tag, len: val_len(&mut r, 5) }));
                        }
                        6..=7 => ops.push(Op::Del(k)),
                        8 => ops.push(Op::Get(k)),
                        _ => ops.push(Op::Pass(r.range(1, iv.min(50) + 1))),
                    }
                }
                threads.push(ops);
            }
            let mut sim = SimParams::default();
            sim.num_cpus = *cr.pick(&[1, 2]);
            sim.strat = match cr.below(4) {
                0 => Strat::Fifo,
                1 => Strat::Random(50),
                2 => Strat::Random(300),
                _ => Strat::Pct(*cr.pick(&[1, 2, 3]), 600),
            };
            if cr.one_in(2) {
                sim.latency_pm = *cr.pick(&[100, 500]);
                sim.max_latency_us = *cr.pick(&[100, 20_000]);
            }
            Scenario { check: check.to_string(), seed, sim, body: Body::Store(StoreScn { cfg, keys, threads, fault: None, fault_reads: false, max_crash_points: 0, extra: 0 }) }
        }
        other => panic!("no generator for check {}", other),
    }
}
