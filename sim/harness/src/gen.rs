//! Scenario generators (swarm style: every run draws its own configuration, key universe,
//! value-size mix, operation mix, fault kinds and scheduler strategy).

use simrt::rng::Rng;

use crate::netscn::*;
use crate::scn::*;

pub fn key_pool() -> Vec<Vec<u8>> {
    let mut long = Vec::new();
    for i in 0..300u32 {
        long.push((i % 251) as u8);
    }
    vec![
        b"".to_vec(),
        b"k".to_vec(),
        b"key1".to_vec(),
        b"key2".to_vec(),
        b"user:1".to_vec(),
        b"user:10".to_vec(),
        b"user:100".to_vec(),
        vec![0, 255, 13, 10, 0],
        vec![0xff, 0xfe, 0xfd],
        long,
        b"a".to_vec(),
        b"b".to_vec(),
        b"\r\n".to_vec(),
        b"zzzzzzzzzzzzzzzzzzzzzzzzzzzzzzzzzzzzzzzzzzzzzzzzzzzzzzzzzzzzzzzz".to_vec(),
        // a key larger than the 8 KiB write buffer (the entry header alone takes several writes)
        (0..9000u32).map(|i| (i * 7 % 253) as u8).collect(),
    ]
}

pub fn pick_keys(r: &mut Rng, n: usize) -> Vec<Vec<u8>> {
    let mut pool = key_pool();
    let mut out = Vec::new();
    for _ in 0..n.min(pool.len()) {
        let i = r.usize_below(pool.len());
        out.push(pool.swap_remove(i));
    }
    out
}

/// Value length mix: empty, tiny, small, around the 8 KiB write buffer, 20 KiB, 64 KiB.
pub fn val_len(r: &mut Rng, big_share: u32) -> u32 {
    let c = r.below(100) as u32;
    if c < big_share {
        match r.below(6) {
            0 => r.range(8150, 8200) as u32,
            1 => r.range(8100, 8300) as u32,
            2 => 8192,
            3 => 20 * 1024 + r.below(100) as u32,
            4 => 16 * 1024 + r.below(20) as u32,
            _ => 65536,
        }
    } else {
        match r.below(10) {
            0 => 0,
            1 => 1,
            2 => r.range(2, 7) as u32,
            3 | 4 | 5 => r.range(8, 40) as u32,
            6 | 7 => r.range(40, 300) as u32,
            _ => r.range(300, 3000) as u32,
        }
    }
}

pub fn store_cfg(r: &mut Rng) -> StoreCfg {
    let mut c = StoreCfg::default();
    c.max_file_size = *r.pick(&[0, 1, 60, 300, 300, 1000, 4096, 20_000, 1 << 20]);
    c.cache = *r.pick(&[0, 1, 2, 2, 256]);
    c.pool = *r.pick(&[0, 1, 2, 4]);
    c.merge_always = false;
    // thresholds: every class (all files, none, strict subsets)
    c.thr_small = *r.pick(&[0, 0, 40, 120, 500, 5000, u64::MAX, u64::MAX]);
    c.thr_dead = *r.pick(&[0, 30, 100, 1000, u64::MAX, u64::MAX]);
    c.thr_frag = *r.pick(&[0.0, 0.3, 0.5, 0.9, 1.0, 1.0]);
    c
}

pub fn sim_params_seq(r: &mut Rng) -> SimParams {
    let mut p = SimParams::default();
    p.num_cpus = *r.pick(&[1, 2, 4]);
    if r.one_in(2) {
        p.short_write_pm = *r.pick(&[0, 50, 300]);
        p.eintr_pm = *r.pick(&[0, 30, 100]);
        p.latency_pm = *r.pick(&[0, 100]);
        p.max_latency_us = 200_000;
    }
    p
}

pub struct OpMix {
    pub set: u32,
    pub get: u32,
    pub del: u32,
    pub merge: u32,
    pub reopen: u32,
    pub retune: u32,
    pub pass: u32,
}

pub fn gen_ops(r: &mut Rng, n: usize, nkeys: usize, mix: &OpMix, big_share: u32, tag0: &mut u32) -> Vec<Op> {
    let w = [mix.set, mix.get, mix.del, mix.merge, mix.reopen, mix.retune, mix.pass];
    let mut ops = Vec::new();
    for _ in 0..n {
        let k = r.usize_below(nkeys);
        let op = match r.weighted(&w) {
            0 => {
                *tag0 += 1;
                Op::Set(k, Val { tag: *tag0, len: val_len(r, big_share) })
            }
            1 => Op::Get(k),
            2 => Op::Del(k),
            3 => Op::Merge,
            4 => Op::Reopen(!r.one_in(3)),
            5 => Op::Retune(r.below(5) as u32),
            _ => Op::Pass(*r.pick(&[1, 10, 100, 1000, 20_000, 60_000])),
        };
        ops.push(op);
    }
    ops
}

fn run_len(r: &mut Rng, max: usize) -> usize {
    // most runs are short
    match r.below(10) {
        0..=4 => r.range(3, 10) as usize,
        5..=7 => r.range(10, 25) as usize,
        _ => r.range(25, max as u64) as usize,
    }
}

pub fn utf8_key_pool() -> Vec<String> {
    let long: String = std::iter::repeat("long-key-").take(34).collect();
    vec![
        "".to_string(),
        "k".to_string(),
        "key1".to_string(),
        "key2".to_string(),
        "user:1".to_string(),
        "user:10".to_string(),
        "\u{43a}\u{43b}\u{44e}\u{447}".to_string(),
        "\u{1f511}".to_string(),
        "a b".to_string(),
        "line\r\nbreak".to_string(),
        "nul\u{0}byte".to_string(),
        long,
        "SET".to_string(),
        "$5".to_string(),
    ]
}

pub fn pick_utf8_keys(r: &mut Rng, n: usize) -> Vec<String> {
    let mut pool = utf8_key_pool();
    let mut out = Vec::new();
    for _ in 0..n.min(pool.len()) {
        let i = r.usize_below(pool.len());
        out.push(pool.swap_remove(i));
    }
    out
}

pub fn net_params(r: &mut Rng) -> NetParams {
    NetParams {
        capacity: *r.pick(&[64, 256, 4096, 65536, 65536]),
        max_delay_us: *r.pick(&[0, 0, 50, 50_000]),
        read_mode: r.below(4) as u8,
        mss: *r.pick(&[1, 2, 3, 7, 100, 1460]),
        spurious_pm: *r.pick(&[0, 0, 50, 200]),
        accept_err_pm: 0,
        backlog: *r.pick(&[1, 4, 128]),
        write_chunk: *r.pick(&[0, 0, 1, 7, 100]),
    }
}

pub fn net_store_cfg(r: &mut Rng) -> StoreCfg {
    let mut c = StoreCfg::default();
    c.max_file_size = *r.pick(&[60, 300, 4096, 1 << 20]);
    c.cache = *r.pick(&[0, 2, 256]);
    c.pool = *r.pick(&[1, 2, 4]);
    c.thr_small = u64::MAX;
    c
}

fn sched_strat(r: &mut Rng) -> Strat {
    match r.below(5) {
        0 => Strat::Fifo,
        1 => Strat::Random(30),
        2 => Strat::Random(200),
        3 => Strat::Pct(*r.pick(&[1, 2, 3]), 2000),
        _ => Strat::Random(500),
    }
}

fn base_net(cr: &mut Rng, keys: Vec<String>, clients: Vec<ClientScript>) -> NetScn {
    NetScn { cfg: net_store_cfg(cr), net: net_params(cr), workers: *cr.pick(&[1, 2, 4]), max_conn: 128, keys, clients, shutdown_us: None, shutdown_step: None, merges: 0, conn: None, min_backoff_ms: 500, max_backoff_ms: 64000 }
}

fn gen_frame(r: &mut Rng, depth: u32, tag: &mut u32) -> FrameSpec {
    let texts = ["", "OK", "PONG", "ERR unknown command 'foobar'", "hello world", "x", "\u{43a}\u{43b}\u{44e}\u{447}", ":-)", "$5", "*2"];
    let ints = [0i64, 1, -1, 10, -10, 42, i64::MAX, i64::MIN, i64::MAX - 1, i64::MIN + 1, 999_999_999_999_999_999, 1_000_000_000_000_000_000, -999_999_999_999_999_999, -1_000_000_000_000_000_000, 123_456_789_012_345_678, 12345];
    let top = if depth == 0 { 8 } else { 7 };
    match r.below(top) {
        0 => FrameSpec::Simple(r.pick(&texts).to_string()),
        1 => FrameSpec::Error(r.pick(&texts).to_string()),
        2 | 3 => FrameSpec::Int(*r.pick(&ints)),
        4 | 5 => {
            *tag += 1;
            match r.below(8) {
                0 => FrameSpec::BulkRaw(vec![]),
                1 => FrameSpec::BulkRaw(b"\r".to_vec()),
                2 => FrameSpec::BulkRaw(b"abc\r".to_vec()),
                3 => FrameSpec::BulkRaw(b"\r\n".to_vec()),
                4 => FrameSpec::BulkRaw(b"$-1\r\n".to_vec()),
                5 => FrameSpec::Bulk(Val { tag: *tag, len: *r.pick(&[8190, 8192, 8194, 20_000, 70_000]) }),
                _ => FrameSpec::Bulk(Val { tag: *tag, len: val_len(r, 0) }),
            }
        }
        6 => FrameSpec::Null,
        _ => {
            let n = r.below(5) as usize;
            FrameSpec::Array((0..n).map(|_| gen_frame(r, depth + 1, tag)).collect())
        }
    }
}

fn hostile_item(r: &mut Rng, thorough: bool) -> Vec<u8> {
    match r.below(18) {
        16 | 17 => {
            // a chain of 2-4 array / bulk headers whose counts are drawn from interesting numbers
            // of both signs (counts that cancel each other, that overflow when added or
            // multiplied, that are huge but allocatable), optionally followed by a scalar
            const NUMS: [i64; 14] = [0, 1, 2, 3, 1 << 31, 1 << 40, 1 << 50, 1 << 55, 1 << 62, i64::MAX, 4_000_000_000_000, 100_000_000_000, 65_536, 1_125_899_906_842_624];
            let n = r.range(2, 4);
            let mut b = Vec::new();
            let mut last: i64 = 1;
            for j in 0..n {
                let mut v = if j > 0 && r.one_in(2) { last } else { *r.pick(&NUMS) };
                if r.one_in(2) {
                    v = v.checked_neg().unwrap_or(v);
                }
                last = v.checked_neg().unwrap_or(v);
                let kind = if j + 1 == n && r.one_in(3) { '$' } else { '*' };
                b.extend_from_slice(format!("{}{}\r\n", kind, v).as_bytes());
            }
            if r.one_in(2) {
                b.extend_from_slice(*r.pick(&[&b":1\r\n"[..], b"$1\r\nx\r\n", b"+a\r\n"]));
            }
            b
        }
        0 => {
            let n = r.range(1, 200) as usize;
            let mut b = vec![0u8; n];
            r.fill(&mut b);
            b
        }
        1 => r.pick(&[&b":123\r\n"[..], b"+PING\r\n", b"*0\r\n", b"$3\r\nGET\r\n", b"-ERR x\r\n", b"$-1\r\n"]).to_vec(),
        2 => b"*1\r\n*1\r\n$3\r\nGET\r\n".to_vec(),
        3 => r.pick(&[&b"*1\r\n$4\r\nPING\r\n"[..], b"*2\r\n$4\r\nECHO\r\n$1\r\nx\r\n", b"*2\r\n$3\r\nget\r\n$1\r\nk\r\n", b"*1\r\n$0\r\n\r\n"]).to_vec(),
        4 => r.pick(&[&b"*1\r\n$3\r\nGET\r\n"[..], b"*3\r\n$3\r\nGET\r\n$1\r\na\r\n$1\r\nb\r\n", b"*2\r\n$3\r\nSET\r\n$1\r\na\r\n", b"*4\r\n$3\r\nSET\r\n$1\r\na\r\n$1\r\nb\r\n$1\r\nc\r\n", b"*1\r\n$3\r\nDEL\r\n", b"*1\r\n$3\r\nSET\r\n"]).to_vec(),
        5 => r.pick(&[&b"*2\r\n$3\r\nGET\r\n:1\r\n"[..], b"*3\r\n$3\r\nSET\r\n+k\r\n$1\r\nv\r\n", b"*2\r\n:3\r\n$1\r\nk\r\n", b"*2\r\n$3\r\nDEL\r\n$-1\r\n", b"*2\r\n$3\r\nGET\r\n*0\r\n"]).to_vec(),
        6 => r.pick(&[&b"*2\r\n$3\r\nGET\r\n$2\r\n\xff\xfe\r\n"[..], b"*3\r\n$3\r\nSET\r\n$2\r\n\xc3\x28\r\n$1\r\nv\r\n", b"*2\r\n$3\r\nDEL\r\n$1\r\n\x80\r\n"]).to_vec(),
        7 => r.pick(&[&b"*2\r\n$3\r\nGET\r\n$5\r\nab"[..], b"*3\r\n$3\r\nSET\r\n$1\r\nk\r\n$100\r\nshort", b"*2\r\n$3\r\nGE", b"*", b"$", b":", b":-", b":+", b"$1", b"*2\r"]).to_vec(),
        8 => r
            .pick(&[
                &b"$9223372036854775807\r\n"[..],
                b"*9223372036854775807\r\n",
                b"$9223372036854775806\r\nx",
                b"*4611686018427387904\r\n",
                // lengths whose allocation would not overflow but cannot be satisfied
                b"*100000000000\r\n",
                b"*4000000000000\r\n",
                b"*100000000000000000\r\n",
                b"*2\r\n*50000000000\r\n",
                b"$100000000000\r\n",
                b"$4000000000000000\r\nab",
                b"*3\r\n$3\r\nSET\r\n$1\r\nk\r\n$90000000000\r\n",
                b"$-5\r\n",
                b"*-1\r\n",
                b"$-0\r\n",
                b"*-0\r\n",
            ])
            .to_vec(),
        9 => r.pick(&[&b"$+\r\n"[..], b"$-\r\n", b":-\r\n", b":+\r\n", b":\r\n", b"$\r\n", b"*\r\n", b"*+2\r\n$3\r\nGET\r\n$1\r\nk\r\n"]).to_vec(),
        10 => r.pick(&[&b"$99999999999999999999\r\n"[..], b":99999999999999999999\r\n", b":-99999999999999999999\r\n", b"*99999999999999999999\r\n", b":9223372036854775808\r\n", b":-9223372036854775809\r\n"]).to_vec(),
        11 => {
            // a 20-digit number at a buffer offset beyond 18
            let mut b = b"*2\r\n$3\r\nGET\r\n".to_vec();
            let tail: &[u8] = *r.pick(&[&b"$12345678901234567890\r\n"[..], b"$99999999999999999999\r\n", b":55555555555555555555\r\n", b"$-12345678901234567890\r\n"]);
            b.extend_from_slice(tail);
            b
        }
        12 | 13 => {
            let depths: &[usize] = if thorough { &[2, 64, 4096, 65_536, 262_144] } else { &[2, 64, 4096, 65_536] };
            let d = *r.pick(depths);
            let mut b = Vec::with_capacity(d * 4 + 8);
            for _ in 0..d {
                b.extend_from_slice(b"*1\r\n");
            }
            if r.one_in(2) {
                b.extend_from_slice(b":1\r\n");
            }
            b
        }
        14 => b"\r\n\r\n\r\n".to_vec(),
        _ => {
            // a command name that is not a bulk string, followed by well-formed arguments
            b"*3\r\n+SET\r\n$1\r\nk\r\n$3\r\nabc\r\n".to_vec()
        }
    }
}


/// Concurrent store scenario (C04; also a share of C19's runs, where only explicit merging
/// threads are used so that the store is quiet when the accounting is compared).
fn gen_conc(check: &str, seed: u64, r: &mut Rng, cr: &mut Rng, tag: &mut u32, timer_merges: bool) -> Scenario {
    let mut r = r;
    let mut cr = cr;
    let mut tag = *tag;
            let mut cfg = store_cfg(&mut cr);
            cfg.max_file_size = *cr.pick(&[60, 300, 1000, 9000, 20_000, 1 << 20]);
            cfg.pool = *cr.pick(&[1, 1, 2, 2, 4]);
            cfg.cache = *cr.pick(&[0, 1, 2, 256]);
            let nkeys = cr.range(2, 4) as usize;
            let keys = pick_keys(&mut cr, nkeys);
            let big = *cr.pick(&[10, 40, 70]);
            let writers = cr.range(1, 3) as usize;
            let readers = cr.range(1, 3) as usize;
            let mut threads = Vec::new();
            for _ in 0..writers {
                let n = r.range(3, 9) as usize;
                threads.push(gen_ops(&mut r, n, nkeys, &OpMix { set: 60, get: 10, del: 25, merge: 0, reopen: 0, retune: 0, pass: 0 }, big, &mut tag));
            }
            for _ in 0..readers {
                let n = r.range(3, 10) as usize;
                threads.push(gen_ops(&mut r, n, nkeys, &OpMix { set: 0, get: 100, del: 0, merge: 0, reopen: 0, retune: 0, pass: 0 }, big, &mut tag));
            }
            match if timer_merges { cr.below(3) } else { cr.below(2) } {
                0 => {}
                1 => {
                    let n = r.range(1, 4) as usize;
                    threads.push((0..n).map(|_| Op::Merge).collect());
                }
                _ => {
                    cfg.merge_always = true;
                    cfg.check_interval_ms = 1;
                    cfg.jitter = 0.5;
                    cfg.trig_frag = 0.0;
                    cfg.trig_dead = 0;
                }
            }
            let mut sim = SimParams::default();
            sim.num_cpus = *cr.pick(&[1, 2, 4]);
            sim.strat = match cr.below(5) {
                0 => Strat::Random(20),
                1 => Strat::Random(100),
                2 => Strat::Random(400),
                3 => Strat::Pct(*cr.pick(&[1, 2, 3]), 400),
                _ => Strat::Pct(*cr.pick(&[2, 5]), 1500),
            };
            if cr.one_in(2) {
                sim.latency_pm = *cr.pick(&[50, 200]);
                sim.max_latency_us = *cr.pick(&[10, 3000]);
                sim.short_write_pm = *cr.pick(&[0, 100]);
            }
            Scenario { check: check.to_string(), seed, sim, body: Body::Store(StoreScn { cfg, keys, threads, fault: None, fault_reads: false, max_crash_points: 0, extra: 0 }) }
}

pub fn generate(check: &str, tier: &str, seed: u64) -> Scenario {
    let mut r = Rng::stream(seed, "workload");
    let mut cr = Rng::stream(seed, "config");
    let thorough = tier == "thorough";
    let mut tag = 0u32;
    // C14 "across ... crashes": a sixth of its runs are fault workloads (those of C20) with one
    // failed call or a short episode at a random position; only the file discipline is judged
    if check == "C14" && Rng::stream(seed, "c14-fault").one_in(6) {
        let mut scn = generate("C20", tier, seed);
        scn.check = "C14".to_string();
        if let Body::Store(st) = &mut scn.body {
            let mut fr = Rng::stream(seed, "c14-fault-position");
            let nops = st.threads[0].len() as u64;
            let nth = 2 + fr.below(6 * nops + 4);
            let mode = match fr.below(6) {
                0 => 1u8,
                1 => 0x10,
                2 => 0x80 | 0x20,
                3 => 0x30,
                _ => 0,
            };
            st.fault = Some((nth, if mode & 0x80 != 0 { libc::ENOSPC } else { libc::EIO }, mode));
            st.fault_reads = false;
        }
        return scn;
    }
    match check {
        "C19" if cr.one_in(4) => gen_conc(check, seed, &mut r, &mut cr, &mut tag, false),
        "C01" | "C02" | "C05" | "C12" | "C13" | "C14" | "C19" => {
            let mut cfg = store_cfg(&mut cr);
            let nkeys = cr.range(4, 12) as usize;
            let keys = pick_keys(&mut cr, nkeys);
            let big = *cr.pick(&[0, 5, 15, 40]);
            let maxlen = if thorough { 80 } else { 60 };
            let n = run_len(&mut r, maxlen);
            let mix = match check {
                "C01" => OpMix { set: 40, get: 30, del: 15, merge: 8, reopen: 0, retune: 0, pass: 2 },
                "C02" => OpMix { set: 40, get: 10, del: 25, merge: 0, reopen: 15, retune: 0, pass: 0 },
                "C05" => OpMix { set: 40, get: 5, del: 25, merge: 12, reopen: 8, retune: 6, pass: 0 },
                "C12" => OpMix { set: 45, get: 0, del: 20, merge: 15, reopen: 3, retune: 4, pass: 0 },
                "C13" => {
                    if cr.one_in(2) {
                        cfg.thr_small = u64::MAX;
                    }
                    OpMix { set: 45, get: 0, del: 25, merge: 15, reopen: 3, retune: 3, pass: 0 }
                }
                "C14" => OpMix { set: 45, get: 5, del: 15, merge: 12, reopen: 12, retune: 3, pass: 0 },
                _ => OpMix { set: 40, get: 3, del: 25, merge: 10, reopen: 10, retune: 5, pass: 0 },
            };
            let mut ops = gen_ops(&mut r, n, nkeys, &mix, big, &mut tag);
            // a share of runs lets the store's own timer path do the merging
            if matches!(check, "C01" | "C02" | "C05" | "C13" | "C19") && cr.one_in(5) {
                cfg.merge_always = true;
                cfg.check_interval_ms = *cr.pick(&[10, 1000, 18_000]);
                cfg.jitter = *cr.pick(&[0.0, 0.3, 1.0]);
                cfg.trig_frag = *cr.pick(&[0.0, 0.3, 0.6]);
                cfg.trig_dead = *cr.pick(&[0, 100, u64::MAX]);
                // let a few check intervals pass now and then (bounded: every tick costs steps)
                let iv = cfg.check_interval_ms;
                let m = ops.len();
                for j in 0..m {
                    if r.one_in(4) {
                        ops.insert(j, Op::Pass(*r.pick(&[iv / 2 + 1, iv * 2, iv * 3 + 7])));
                    }
                }
                for o in ops.iter_mut() {
                    if let Op::Pass(ms) = o {
                        if *ms > iv * 4 {
                            *ms = iv * 4;
                        }
                    }
                }
            }
            if check == "C02" {
                // always end with reopen cycles, sometimes back to back
                let cycles = r.range(1, 4);
                for _ in 0..cycles {
                    ops.push(Op::Reopen(r.one_in(2)));
                    if r.one_in(2) {
                        ops.push(Op::Get(r.usize_below(nkeys)));
                    }
                }
            }
            if check == "C05" {
                if !ops.iter().any(|o| matches!(o, Op::Merge)) {
                    ops.push(Op::Merge);
                }
                for _ in 0..r.below(4) {
                    ops.push(Op::Reopen(true));
                }
            }
            if check == "C12" || check == "C13" {
                if !ops.iter().any(|o| matches!(o, Op::Merge)) {
                    let at = r.usize_below(ops.len() + 1);
                    ops.insert(at, Op::Merge);
                }
            }
            // now and then one value far beyond every internal buffer and size threshold (> 1 MiB)
            if matches!(check, "C01" | "C02" | "C05" | "C12" | "C19") && cr.one_in(12) {
                let sets: Vec<usize> = ops.iter().enumerate().filter(|(_, o)| matches!(o, Op::Set(..))).map(|(i, _)| i).collect();
                if !sets.is_empty() {
                    let at = *r.pick(&sets);
                    if let Op::Set(_, v) = &mut ops[at] {
                        v.len = *r.pick(&[1_048_577u32, 1_048_576 + 4096, 2 * 1_048_576 + 17, 3 * 1_048_576]);
                    }
                }
            }
            // wall-clock jumps (forwards and backwards) between operations: nothing may depend on it
            if cr.one_in(4) {
                let m = ops.len();
                for _ in 0..r.range(1, 3) {
                    let at = r.usize_below(m + 1);
                    ops.insert(at.min(ops.len()), Op::ClockJump(*r.pick(&[-86_400, -3_600, -1, 1, 3_600, 86_400 * 365])));
                }
            }
            if cfg.merge_always {
                // an old instance's background merge racing a reopen is C17's subject
                for o in ops.iter_mut() {
                    if let Op::Reopen(w) = o {
                        *w = true;
                    }
                }
            }
            Scenario {
                check: check.to_string(),
                seed,
                sim: sim_params_seq(&mut cr),
                body: Body::Store(StoreScn { cfg, keys, threads: vec![ops], fault: None, fault_reads: false, max_crash_points: 0, extra: 0 }),
            }
        }
        "C03" | "C09" => {
            let mut cfg = store_cfg(&mut cr);
            cfg.max_file_size = *cr.pick(&[0, 60, 300, 300, 1000, 4096, 20_000, 1 << 20]);
            cfg.sync = if check == "C09" { SyncCfg::Always } else { SyncCfg::None };
            let nkeys = cr.range(3, 8) as usize;
            let keys = pick_keys(&mut cr, nkeys);
            let big = *cr.pick(&[0, 10, 30]);
            let n = match r.below(10) {
                0..=5 => r.range(3, 8) as usize,
                6..=8 => r.range(8, 16) as usize,
                _ => r.range(16, 30) as usize,
            };
            let mix = OpMix { set: 45, get: 0, del: 20, merge: 15, reopen: 8, retune: 0, pass: 0 };
            let mut ops = gen_ops(&mut r, n, nkeys, &mix, big, &mut tag);
            for o in ops.iter_mut() {
                if let Op::Reopen(w) = o {
                    *w = true;
                }
            }
            let mut sim = sim_params_seq(&mut cr);
            sim.latency_pm = 0;
            let mut threads = vec![ops];
            if cr.one_in(4) {
                // concurrent writers on disjoint keys (+ a merging thread) under a seeded schedule
                let nw = cr.range(2, 3) as usize;
                let nkeys2 = keys.len();
                threads.clear();
                for t in 0..nw {
                    let own: Vec<usize> = (0..nkeys2).filter(|k| k % nw == t).collect();
                    let n = r.range(2, 8) as usize;
                    let mut ops = Vec::new();
                    for _ in 0..n {
                        let k = if own.is_empty() { 0 } else { *r.pick(&own) };
                        if own.is_empty() {
                            break;
                        }
                        if r.below(10) < 7 {
                            tag += 1;
                            ops.push(Op::Set(k, Val { tag, len: val_len(&mut r, big) }));
                        } else {
                            ops.push(Op::Del(k));
                        }
                    }
                    threads.push(ops);
                }
                if cr.one_in(2) {
                    threads.push((0..r.range(1, 3)).map(|_| Op::Merge).collect());
                }
                sim.strat = match cr.below(3) {
                    0 => Strat::Random(100),
                    1 => Strat::Random(400),
                    _ => Strat::Pct(*cr.pick(&[1, 2, 3]), 600),
                };
            }
            // a quarter of the sequential workloads contain one failed file-system call (or a short
            // episode of them) before the crash: the operation it hits reports the error, and
            // everything acknowledged before and after it must still survive the kill / power loss
            let mut fault = None;
            if threads.len() == 1 {
                let mut fr = Rng::stream(seed, "crash-fault");
                if fr.one_in(4) {
                    let nth = 2 + fr.below(5 * threads[0].len() as u64 + 2);
                    let mode = match fr.below(6) {
                        0 => 1u8,
                        1 => 0x10,
                        2 => 0x80 | 0x20,
                        _ => 0,
                    };
                    fault = Some((nth, if mode & 0x80 != 0 { libc::ENOSPC } else { libc::EIO }, mode));
                }
            }
            Scenario {
                check: check.to_string(),
                seed,
                sim,
                body: Body::Store(StoreScn { cfg, keys, threads, fault, fault_reads: false, max_crash_points: if thorough { 0 } else { 80 }, extra: 0 }),
            }
        }
        "C20" => {
            let mut cfg = store_cfg(&mut cr);
            cfg.max_file_size = *cr.pick(&[0, 60, 300, 300, 1000, 4096, 20_000]);
            cfg.sync = if cr.one_in(2) { SyncCfg::Always } else { SyncCfg::None };
            let nkeys = cr.range(3, 6) as usize;
            let keys = pick_keys(&mut cr, nkeys);
            let big = *cr.pick(&[0, 15, 40]);
            let n = match r.below(10) {
                0..=5 => r.range(3, 8) as usize,
                6..=8 => r.range(8, 14) as usize,
                _ => r.range(14, 25) as usize,
            };
            let mix = OpMix { set: 45, get: 5, del: 20, merge: 15, reopen: 4, retune: 0, pass: 0 };
            let mut ops = gen_ops(&mut r, n, nkeys, &mix, big, &mut tag);
            for o in ops.iter_mut() {
                if let Op::Reopen(w) = o {
                    *w = true;
                }
            }
            let mut sim = sim_params_seq(&mut cr);
            sim.latency_pm = 0;
            if cr.one_in(5) {
                // the store's own timer-driven merge / sync tasks make the failing call
                cfg.merge_always = true;
                cfg.check_interval_ms = 100;
                cfg.jitter = 0.0;
                cfg.trig_frag = 0.0;
                cfg.trig_dead = 0;
                cfg.thr_small = u64::MAX;
                if cr.one_in(2) {
                    cfg.sync = SyncCfg::IntervalMs(70);
                }
                let m = ops.len();
                for j in (0..m).rev() {
                    if r.one_in(3) {
                        ops.insert(j, Op::Pass(150));
                    }
                }
                ops.push(Op::Pass(150));
            }
            Scenario {
                check: check.to_string(),
                seed,
                sim,
                body: Body::Store(StoreScn { cfg, keys, threads: vec![ops], fault: None, fault_reads: if thorough { cr.one_in(2) } else { cr.one_in(3) }, max_crash_points: if thorough { 0 } else { 40 }, extra: 0 }),
            }
        }
        "C04" => gen_conc(check, seed, &mut r, &mut cr, &mut tag, true),
        "C18" => {
            let mut cfg = store_cfg(&mut cr);
            cfg.max_file_size = *cr.pick(&[60, 300, 1000, 2500, 9000, 1 << 20]);
            cfg.check_interval_ms = *cr.pick(&[10, 100, 1000, 18_000, 60_000, 3_600_000]);
            cfg.jitter = *cr.pick(&[0.0, 0.1, 0.3, 0.5, 1.0]);
            cfg.sync = match cr.below(3) {
                0 => SyncCfg::None,
                _ => SyncCfg::IntervalMs(*cr.pick(&[5, 50, 1000, 30_000])),
            };
            // thresholds select everything so a triggered merge always has work
            cfg.thr_small = u64::MAX;
            let nkeys = cr.range(2, 6) as usize;
            let keys = pick_keys(&mut cr, nkeys);
            let n = r.range(2, 14) as usize;
            let ops = gen_ops(&mut r, n, nkeys, &OpMix { set: 55, get: 0, del: 30, merge: 0, reopen: 0, retune: 0, pass: 0 }, 5, &mut tag);
            let mode = cr.below(7);
            let never = cr.one_in(5);
            let mut sim = SimParams::default();
            sim.num_cpus = 1;
            sim.jitter_extreme_pm = *cr.pick(&[0, 300, 1000]);
            sim.strat = cr.pick(&[Strat::Fifo, Strat::Random(100)]).clone();
            // in half of the runs timers fire a little late, as real timers always do
            sim.timer_late_us = *Rng::stream(seed, "c18-timer-late").pick(&[0u64, 0, 30, 700]);
            // sync intervals must stay tractable relative to the observed span
            if let SyncCfg::IntervalMs(d) = cfg.sync {
                let span_ms = 3.0 * cfg.check_interval_ms as f64 * (1.0 + cfg.jitter);
                if span_ms / d as f64 > 3000.0 {
                    cfg.sync = SyncCfg::IntervalMs((span_ms / 1000.0) as u64 + 1);
                }
            }
            Scenario { check: check.to_string(), seed, sim, body: Body::Store(StoreScn { cfg, keys, threads: vec![ops], fault: None, fault_reads: false, max_crash_points: 0, extra: mode | if never { 0x10 } else { 0 } }) }
        }
        "C17" => {
            let mut cfg = store_cfg(&mut cr);
            cfg.max_file_size = *cr.pick(&[60, 300, 1000, 1 << 20]);
            cfg.merge_always = !cr.one_in(4);
            cfg.check_interval_ms = *cr.pick(&[10, 10, 100, 18_000, 3_600_000]);
            cfg.jitter = *cr.pick(&[0.0, 0.3, 1.0]);
            cfg.trig_frag = *cr.pick(&[0.0, 0.0, 0.3]);
            cfg.trig_dead = *cr.pick(&[0, 0, 100, u64::MAX]);
            cfg.thr_small = u64::MAX;
            cfg.sync = match cr.below(3) {
                0 => SyncCfg::None,
                1 => SyncCfg::IntervalMs(*cr.pick(&[5, 50, 60_000])),
                _ => SyncCfg::Always,
            };
            // a fifth of the runs use the third documented merge policy, a window of hours of the
            // day (the simulated wall clock starts at 22:13): always open, closed, closing within
            // two hours, opening within the hour
            if cr.one_in(5) {
                cfg.merge_window = Some(*cr.pick(&[(0u32, 23u32), (3, 5), (22, 23), (23, 23), (10, 21)]));
            }
            // keep the number of sync ticks per check interval tractable
            if let SyncCfg::IntervalMs(d) = cfg.sync {
                if cfg.check_interval_ms / d > 50 {
                    cfg.sync = SyncCfg::IntervalMs(cfg.check_interval_ms / 20 + 1);
                }
            }
            let nthreads = 1 + cr.below(3) as usize;
            let nkeys = nthreads * cr.range(2, 3) as usize;
            let keys = pick_keys(&mut cr, nkeys);
            let iv = cfg.check_interval_ms;
            let mut main: Vec<Op> = Vec::new();
            let own = |t: usize, r: &mut Rng| -> usize { t + nthreads * r.usize_below(nkeys / nthreads) };
            let mut push_ops = |main: &mut Vec<Op>, r: &mut Rng, n: usize, tag: &mut u32| {
                for _ in 0..n {
                    let k = own(0, r);
                    match r.below(10) {
                        0..=5 => {
                            *tag += 1;
                            main.push(Op::Set(k, Val { tag: *tag, len: val_len(r, 5) }));
                        }
                        6..=7 => main.push(Op::Del(k)),
                        _ => main.push(Op::Get(k)),
                    }
                }
            };
            let cycles = r.range(1, 5);
            for c in 0..cycles {
                let n = r.range(1, 6) as usize;
                push_ops(&mut main, &mut r, n, &mut tag);
                // land the drop at a chosen instant relative to the worker's timers
                match r.below(4) {
                    0 => {}
                    1 => main.push(Op::Pass(iv / 2 + 1)),
                    2 => main.push(Op::Pass(iv)),
                    _ => main.push(Op::Pass(iv + iv / 3 + 1)),
                }
                if iv <= 100 && r.one_in(2) {
                    main.push(Op::Pass(r.range(1, 3 * iv)));
                }
                main.push(Op::Close);
                // use through the stale handle
                for _ in 0..r.below(4) {
                    let k = own(0, &mut r);
                    match r.below(5) {
                        0 => {
                            tag += 1;
                            main.push(Op::Set(k, Val { tag, len: 9 }));
                        }
                        1 => main.push(Op::Del(k)),
                        2 => main.push(Op::Get(k)),
                        3 => main.push(Op::Merge),
                        _ => main.push(Op::Sync),
                    }
                }
                if c + 1 < cycles || r.one_in(2) {
                    main.push(Op::Reopen(r.one_in(3)));
                }
            }
            let mut threads = vec![main];
            for t in 1..nthreads {
                let n = r.range(2, 8) as usize;
                let mut ops = Vec::new();
                for _ in 0..n {
                    let k = t + nthreads * r.usize_below(nkeys / nthreads);
                    match r.below(10) {
                        0..=5 => {
                            tag += 1;
                            ops.push(Op::Set(k, Val { tag, len: val_len(&mut r, 5) }));
                        }
                        6..=7 => ops.push(Op::Del(k)),
                        8 => ops.push(Op::Get(k)),
                        _ => ops.push(Op::Pass(r.range(1, iv.min(50) + 1))),
                    }
                }
                threads.push(ops);
            }
            let mut sim = SimParams::default();
            sim.num_cpus = *cr.pick(&[1, 2]);
            sim.strat = match cr.below(4) {
                0 => Strat::Fifo,
                1 => Strat::Random(50),
                2 => Strat::Random(300),
                _ => Strat::Pct(*cr.pick(&[1, 2, 3]), 600),
            };
            if cr.one_in(2) {
                sim.latency_pm = *cr.pick(&[100, 500]);
                sim.max_latency_us = *cr.pick(&[100, 20_000]);
            }
            // a quarter of the runs with timer-driven merging fail one call (or a short episode) of
            // the background worker's own threads
            let mut fault = None;
            {
                let mut fr = Rng::stream(seed, "background-fault");
                if cfg.merge_always && fr.one_in(4) {
                    let extra = *fr.pick(&[0u8, 0, 1, 3]);
                    fault = Some((1 + fr.below(14), libc::EIO, 0x08 | (extra << 4)));
                }
            }
            Scenario { check: check.to_string(), seed, sim, body: Body::Store(StoreScn { cfg, keys, threads, fault, fault_reads: false, max_crash_points: 0, extra: 0 }) }
        }
        "C06" => {
            let nkeys = cr.range(2, 6) as usize;
            let keys = pick_utf8_keys(&mut cr, nkeys);
            let mut net = net_params(&mut cr);
            let n = match r.below(10) {
                0..=4 => r.range(1, 6) as usize,
                5..=7 => r.range(6, 15) as usize,
                _ => r.range(15, 40) as usize,
            };
            let big = *cr.pick(&[0, 5, 20]);
            let window = *cr.pick(&[1usize, 1, 2, 3, 8, 1000]);
            // a third of the clients now and then send only a prefix of a request and wait for
            // the replies that are due before sending its rest
            let cutting = cr.one_in(3);
            let mut steps = Vec::new();
            for _ in 0..n {
                let k = r.usize_below(nkeys);
                let req = match r.below(10) {
                    0..=3 => {
                        tag += 1;
                        Req::Set(k, Val { tag, len: val_len(&mut r, big) })
                    }
                    4..=6 => Req::Get(k),
                    _ => {
                        let m = r.range(1, 5) as usize;
                        Req::Del((0..m).map(|_| r.usize_below(nkeys)).collect())
                    }
                };
                if cutting && r.one_in(3) {
                    steps.push(CStep::SendCut(req, r.below(1000) as u32));
                } else {
                    steps.push(CStep::Send(req));
                }
                steps.push(CStep::Await(window - 1));
            }
            steps.push(CStep::Await(0));
            if cr.one_in(2) {
                steps.push(CStep::HalfClose);
                steps.push(CStep::ReadToEof);
            }
            let client = ClientScript { start_us: 0, chunk_mode: cr.below(3) as u8, chunk_n: *cr.pick(&[2, 5, 17, 200]), chunk_pause_us: *cr.pick(&[0, 0, 10]), hostile: false, steps };
            if client.chunk_mode == 1 && n > 15 {
                net.max_delay_us = net.max_delay_us.min(50);
            }
            let mut sim = SimParams::default();
            sim.num_cpus = *cr.pick(&[1, 2, 4]);
            sim.strat = sched_strat(&mut cr);
            Scenario {
                check: check.to_string(),
                seed,
                sim,
                body: Body::Net(NetScn { cfg: net_store_cfg(&mut cr), net, workers: *cr.pick(&[1, 2, 4]), max_conn: 128, keys, clients: vec![client], shutdown_us: None, shutdown_step: None, merges: 0, conn: None, min_backoff_ms: 500, max_backoff_ms: 64000 }),
            }
        }
        "C11" => {
            let nkeys = cr.range(2, 3) as usize;
            let keys = pick_utf8_keys(&mut cr, nkeys);
            let mut net = net_params(&mut cr);
            net.max_delay_us = *cr.pick(&[0, 0, 20, 2000]);
            let nclients = cr.range(2, 4) as usize;
            let mut clients = Vec::new();
            for _ in 0..nclients {
                let n = r.range(3, 12) as usize;
                // a third of the clients pipeline deeply and mostly read one key: their replies
                // must respect the connection's own order although the requests overlap in time
                let deep = cr.one_in(3);
                let window = if deep { *cr.pick(&[4usize, 6, 8]) } else { *cr.pick(&[1usize, 1, 2, 3]) };
                let hot = r.usize_below(nkeys);
                let mut steps = Vec::new();
                for _ in 0..n {
                    let k = if deep && !r.one_in(4) { hot } else { r.usize_below(nkeys) };
                    let req = match if deep { 4 + r.below(5) } else { r.below(10) } {
                        0..=3 => {
                            tag += 1;
                            Req::Set(k, Val { tag, len: *r.pick(&[8, 9, 40, 8200]) })
                        }
                        4..=7 => Req::Get(k),
                        _ => Req::Del(vec![k]),
                    };
                    steps.push(CStep::Send(req));
                    steps.push(CStep::Await(window - 1));
                    if r.one_in(6) {
                        steps.push(CStep::Pause(r.range(1, 3000)));
                    }
                }
                steps.push(CStep::Await(0));
                clients.push(ClientScript { start_us: *cr.pick(&[0, 0, 10, 1000]), chunk_mode: *cr.pick(&[0, 0, 2]), chunk_n: 64, chunk_pause_us: 0, hostile: false, steps });
            }
            // a quarter of the scenarios are shaped for orderings ACROSS keys: readers send a whole
            // burst of GETs alternating over two keys in one go, writers set those keys in turn,
            // one acknowledged request at a time; disk latency stalls a reader between two reads
            // while a writer gets through several acknowledged round trips
            let mut skr = Rng::stream(seed, "c11-skew");
            let skew = skr.one_in(4);
            if skew {
                clients.clear();
                let readers = skr.range(1, 2) as usize;
                let writers = skr.range(1, 2) as usize;
                for _ in 0..readers {
                    let first = skr.usize_below(2);
                    let mut steps = Vec::new();
                    for _ in 0..skr.range(1, 4) {
                        let n = *skr.pick(&[3usize, 3, 4, 6]);
                        for i in 0..n {
                            steps.push(CStep::Send(Req::Get((first + i) % 2)));
                        }
                        steps.push(CStep::Await(0));
                        if skr.one_in(3) {
                            steps.push(CStep::Pause(skr.range(1, 2000)));
                        }
                    }
                    clients.push(ClientScript { start_us: *skr.pick(&[0, 0, 5, 50, 300]), chunk_mode: 0, chunk_n: 64, chunk_pause_us: 0, hostile: false, steps });
                }
                for _ in 0..writers {
                    let n = skr.range(2, 8) as usize;
                    let first = skr.usize_below(2);
                    let mut steps = Vec::new();
                    for i in 0..n {
                        tag += 1;
                        let k = (first + i) % 2;
                        let req = if skr.one_in(6) { Req::Del(vec![k]) } else { Req::Set(k, Val { tag, len: *skr.pick(&[8, 9, 40]) }) };
                        steps.push(CStep::Send(req));
                        steps.push(CStep::Await(0));
                    }
                    clients.push(ClientScript { start_us: *skr.pick(&[0, 0, 5, 50, 300]), chunk_mode: 0, chunk_n: 64, chunk_pause_us: 0, hostile: false, steps });
                }
                net.max_delay_us = *skr.pick(&[0, 0, 20]);
            }
            let mut cfg = net_store_cfg(&mut cr);
            let mut merges = 0;
            match cr.below(3) {
                0 => {}
                1 => merges = cr.range(1, 4) as u32,
                _ => {
                    cfg.merge_always = true;
                    cfg.check_interval_ms = 1;
                    cfg.jitter = 0.5;
                    cfg.trig_frag = 0.0;
                    cfg.trig_dead = 0;
                }
            }
            let mut sim = SimParams::default();
            sim.num_cpus = *cr.pick(&[1, 2, 4]);
            sim.strat = sched_strat(&mut cr);
            if cr.one_in(2) {
                sim.latency_pm = *cr.pick(&[100, 400]);
                sim.max_latency_us = *cr.pick(&[10, 2000]);
            }
            if skew && !skr.one_in(4) {
                sim.latency_pm = *skr.pick(&[200, 400, 700]);
                sim.max_latency_us = *skr.pick(&[500, 2000, 10_000]);
            }
            Scenario {
                check: check.to_string(),
                seed,
                sim,
                body: Body::Net(NetScn { cfg, net, workers: *cr.pick(&[1, 2, 4]), max_conn: 128, keys, clients, shutdown_us: None, shutdown_step: None, merges, conn: None, min_backoff_ms: 500, max_backoff_ms: 64000 }),
            }
        }
        "C08" => {
            let nframes = match r.below(10) {
                0..=5 => r.range(1, 4) as usize,
                _ => r.range(4, 12) as usize,
            };
            let frames: Vec<FrameSpec> = (0..nframes).map(|_| gen_frame(&mut r, 0, &mut tag)).collect();
            let mut total = Vec::new();
            for f in &frames {
                // length of the encoding, to place cuts and stalls
                fn enc_len(f: &FrameSpec) -> usize {
                    match f {
                        FrameSpec::Simple(s) | FrameSpec::Error(s) => 3 + s.len(),
                        FrameSpec::Int(i) => 3 + format!("{}", i).len(),
                        FrameSpec::Bulk(v) => 5 + format!("{}", v.len).len() + v.len as usize,
                        FrameSpec::BulkRaw(b) => 5 + format!("{}", b.len()).len() + b.len(),
                        FrameSpec::Null => 5,
                        FrameSpec::Array(a) => 3 + format!("{}", a.len()).len() + a.iter().map(enc_len).sum::<usize>(),
                    }
                }
                total.push(enc_len(f));
            }
            let len: usize = total.iter().sum();
            let mode = cr.below(4);
            let (cut, stall) = match mode {
                0 | 1 => (None, None),
                2 => (Some(1 + r.usize_below(len.min(total[total.len() - 1]).max(1))), None),
                _ => (None, Some(1 + r.usize_below(len.max(1)))),
            };
            let mut net = net_params(&mut cr);
            if len > 50_000 && net.read_mode == 0 {
                net.read_mode = 3;
            }
            if len > 50_000 {
                net.max_delay_us = net.max_delay_us.min(50);
                net.write_chunk = 0;
            }
            let mut sim = SimParams::default();
            sim.num_cpus = 1;
            sim.strat = sched_strat(&mut cr);
            let mut ns = base_net(&mut cr, vec![], vec![]);
            ns.net = net;
            ns.workers = *cr.pick(&[1, 2]);
            ns.conn = Some(ConnScn { frames, cut_before_end: cut, stall_at: stall });
            Scenario { check: check.to_string(), seed, sim, body: Body::Net(ns) }
        }
        "C10" => {
            let nh = cr.range(1, 3) as usize;
            let nc = cr.range(1, 2) as usize;
            let nclients = nh + nc;
            let keys = pick_utf8_keys(&mut cr, nclients * 2);
            let nkeys = keys.len();
            let mut clients = Vec::new();
            for ci in 0..nclients {
                let hostile = ci < nh;
                let own: Vec<usize> = (0..nkeys).filter(|k| k % nclients == ci).collect();
                let mut steps = Vec::new();
                let gen_req = |r: &mut Rng, tag: &mut u32| -> Req {
                    let k = *r.pick(&own);
                    match r.below(10) {
                        0..=4 => {
                            *tag += 1;
                            Req::Set(k, Val { tag: *tag, len: val_len(r, 3) })
                        }
                        5..=7 => Req::Get(k),
                        _ => Req::Del(vec![k, *r.pick(&own)]),
                    }
                };
                if hostile {
                    for _ in 0..r.below(6) {
                        steps.push(CStep::Send(gen_req(&mut r, &mut tag)));
                        steps.push(CStep::Await(0));
                    }
                    if r.one_in(3) {
                        steps.push(CStep::Pause(r.range(1, 2000)));
                    }
                    let mut first = hostile_item(&mut r, thorough);
                    if r.one_in(3) {
                        // a malformed command that names one of this connection's own keys, right
                        // after a well-formed SET of that key: it must leave the key alone
                        let k = *r.pick(&own);
                        tag += 1;
                        steps.push(CStep::Send(Req::Set(k, Val { tag, len: 12 })));
                        steps.push(CStep::Await(0));
                        let key = keys[k].as_bytes();
                        let bulk = |b: &[u8]| -> Vec<u8> {
                            let mut o = format!("${}\r\n", b.len()).into_bytes();
                            o.extend_from_slice(b);
                            o.extend_from_slice(b"\r\n");
                            o
                        };
                        let mut item: Vec<u8> = Vec::new();
                        match r.below(6) {
                            0 => {
                                item.extend_from_slice(b"*3\r\n$3\r\nDEL\r\n");
                                item.extend(bulk(key));
                                item.extend_from_slice(b"$2\r\n\xff\xfe\r\n");
                            }
                            1 => {
                                item.extend_from_slice(b"*3\r\n$3\r\nDEL\r\n");
                                item.extend(bulk(key));
                                item.extend_from_slice(b":7\r\n");
                            }
                            2 => {
                                item.extend_from_slice(b"*4\r\n$3\r\nSET\r\n");
                                item.extend(bulk(key));
                                item.extend(bulk(b"other"));
                                item.extend(bulk(b"extra"));
                            }
                            3 => {
                                item.extend_from_slice(b"*3\r\n$3\r\nSET\r\n");
                                item.extend(bulk(key));
                                item.extend_from_slice(b":5\r\n");
                            }
                            4 => {
                                item.extend_from_slice(b"*4\r\n$3\r\nDEL\r\n");
                                item.extend(bulk(key));
                                item.extend_from_slice(b"$-1\r\n");
                                item.extend(bulk(key));
                            }
                            _ => {
                                item.extend_from_slice(b"*3\r\n$3\r\nDEL\r\n");
                                item.extend(bulk(key));
                                item.extend_from_slice(b"+simple\r\n");
                            }
                        }
                        first = item;
                    }
                    // a truncated frame could be completed into a valid command by whatever
                    // follows it, so more garbage only follows items that are complete
                    let huge = |b: &[u8]| b.windows(12).any(|w| w.iter().all(|c| c.is_ascii_digit()));
                    let truncated = !first.ends_with(b"\n") || huge(&first);
                    steps.push(CStep::SendRaw(first));
                    if !truncated && r.one_in(3) {
                        steps.push(CStep::SendRaw(hostile_item(&mut r, false)));
                    }
                    match r.below(4) {
                        0 => {
                            steps.push(CStep::Flush);
                            steps.push(CStep::ReadFor(r.range(100, 100_000)));
                        }
                        1 => {
                            steps.push(CStep::Flush);
                            steps.push(CStep::Pause(r.range(1, 5000)));
                            steps.push(CStep::Close);
                        }
                        2 => {
                            steps.push(CStep::Flush);
                            steps.push(CStep::HalfClose);
                            steps.push(CStep::ReadFor(r.range(100, 100_000)));
                        }
                        _ => {
                            steps.push(CStep::Flush);
                            steps.push(CStep::Reset);
                        }
                    }
                } else {
                    for _ in 0..r.range(3, 12) {
                        steps.push(CStep::Send(gen_req(&mut r, &mut tag)));
                        steps.push(CStep::Await(0));
                        if r.one_in(3) {
                            steps.push(CStep::Pause(r.range(1, 3000)));
                        }
                    }
                }
                clients.push(ClientScript { start_us: *cr.pick(&[0, 0, 100, 2000]), chunk_mode: *cr.pick(&[0, 0, 1, 2]), chunk_n: *cr.pick(&[3, 64, 4096]), chunk_pause_us: 0, hostile, steps });
            }
            let mut ns = base_net(&mut cr, keys, clients);
            // deep nesting means hundreds of KiB: keep the transport from crawling
            let heavy = ns.clients.iter().any(|c| c.steps.iter().any(|s| matches!(s, CStep::SendRaw(b) if b.len() > 10_000)));
            if heavy {
                ns.net.read_mode = 2;
                ns.net.capacity = 65536;
                ns.net.write_chunk = 0;
                ns.net.spurious_pm = 0;
                ns.net.max_delay_us = ns.net.max_delay_us.min(50);
                for c in ns.clients.iter_mut() {
                    if c.hostile {
                        c.chunk_mode = 0;
                    }
                }
            }
            let mut sim = SimParams::default();
            sim.num_cpus = *cr.pick(&[1, 2]);
            sim.strat = sched_strat(&mut cr);
            Scenario { check: check.to_string(), seed, sim, body: Body::Net(ns) }
        }
        "C15" => {
            let m = cr.range(1, 3) as usize;
            let nclients = m + cr.range(1, 4) as usize;
            let keys = pick_utf8_keys(&mut cr, 3);
            let mut clients = Vec::new();
            for _ in 0..nclients {
                let mut steps = Vec::new();
                // some clients give up before they were ever served (possibly while still
                // queued behind the limit): reset or close right after connecting
                if r.one_in(6) {
                    if r.one_in(2) {
                        steps.push(CStep::Pause(r.range(1, 20_000)));
                    }
                    steps.push(if r.one_in(3) { CStep::Close } else { CStep::Reset });
                    clients.push(ClientScript { start_us: r.range(0, 30_000), chunk_mode: 0, chunk_n: 16, chunk_pause_us: 0, hostile: false, steps });
                    continue;
                }
                // a first exchange (the connection is then definitely being served)
                let first = r.one_in(8);
                if !first {
                    steps.push(CStep::Send(Req::Get(r.usize_below(3))));
                    steps.push(CStep::Await(0));
                }
                for _ in 0..r.below(3) {
                    tag += 1;
                    steps.push(CStep::Send(Req::Set(r.usize_below(3), Val { tag, len: 8 })));
                    steps.push(CStep::Await(0));
                }
                if r.one_in(2) {
                    steps.push(CStep::Pause(r.range(1, 50_000)));
                }
                // some clients hold their connection for seconds or minutes of simulated time
                // (longer than any plausible queue or idle time-out) while others wait for a slot
                {
                    let mut hr = Rng::stream(seed ^ (clients.len() as u64) << 8, "c15-hold");
                    if hr.one_in(5) {
                        steps.push(CStep::Pause(*hr.pick(&[2_500_000u64, 10_000_000, 90_000_000])));
                        tag += 1;
                        steps.push(CStep::Send(Req::Set(0, Val { tag, len: 8 })));
                        steps.push(CStep::Await(0));
                    }
                }
                // ending. A client never waits without bound for the server to close: whether a
                // protocol error, a store error or a half-close ends the connection at once is the
                // server's choice (it may answer with an error and go on); the client closes itself
                // after a while, and the slot must be free then at the latest
                match r.below(7) {
                    0 => steps.push(CStep::Close),
                    1 => {
                        steps.push(CStep::SendRaw(b"*2\r\n$3\r\nGET\r\n$5\r\nab".to_vec()));
                        steps.push(CStep::Flush);
                        steps.push(CStep::Close);
                    }
                    2 => steps.push(CStep::Reset),
                    3 => {
                        steps.push(CStep::SendRaw(b"*1\r\n$4\r\nPING\r\n".to_vec()));
                        steps.push(CStep::Flush);
                        steps.push(CStep::ReadFor(r.range(1_000, 300_000)));
                        steps.push(CStep::Close);
                    }
                    4 => {
                        steps.push(CStep::ArmPanic);
                        steps.push(CStep::Send(Req::Get(0)));
                        steps.push(CStep::Flush);
                        steps.push(CStep::ReadFor(r.range(1_000, 300_000)));
                        steps.push(CStep::Close);
                    }
                    5 => {
                        steps.push(CStep::ArmStoreError);
                        steps.push(CStep::Send(Req::Get(0)));
                        steps.push(CStep::Flush);
                        steps.push(CStep::ReadFor(r.range(1_000, 300_000)));
                        steps.push(CStep::Close);
                    }
                    _ => {
                        steps.push(CStep::HalfClose);
                        steps.push(CStep::ReadFor(r.range(1_000, 300_000)));
                        steps.push(CStep::Close);
                    }
                }
                // half of the clients that wait for the server leave their socket open once the
                // server has ended the connection (end of stream or reset seen): a slot must not
                // depend on the client closing a connection that the server has already ended
                {
                    let mut lr = Rng::stream(seed ^ clients.len() as u64, "linger");
                    if lr.one_in(2) && steps.len() >= 2 && matches!(steps[steps.len() - 2], CStep::ReadFor(_)) {
                        let n = steps.len();
                        steps[n - 1] = CStep::CloseUnlessEnded;
                    }
                }
                clients.push(ClientScript { start_us: r.range(0, 30_000), chunk_mode: *cr.pick(&[0, 0, 2]), chunk_n: 16, chunk_pause_us: 0, hostile: false, steps });
            }
            let mut ns = base_net(&mut cr, keys, clients);
            ns.max_conn = m;
            ns.cfg.merge_always = false;
            ns.cfg.sync = SyncCfg::None;
            ns.net.accept_err_pm = *cr.pick(&[0, 0, 100, 300]);
            ns.net.backlog = *cr.pick(&[1, 2, 128]);
            ns.min_backoff_ms = *cr.pick(&[1, 500]);
            ns.max_backoff_ms = 64000;
            let mut sim = SimParams::default();
            sim.num_cpus = *cr.pick(&[1, 2]);
            sim.strat = sched_strat(&mut cr);
            Scenario { check: check.to_string(), seed, sim, body: Body::Net(ns) }
        }
        "C16" => {
            let nclients = cr.range(0, 4) as usize;
            let keys = pick_utf8_keys(&mut cr, (nclients.max(1)) * 2);
            let nkeys = keys.len();
            let mut clients = Vec::new();
            let firing = if nclients > 0 && cr.one_in(2) { Some(cr.usize_below(nclients)) } else { None };
            for ci in 0..nclients {
                let own: Vec<usize> = (0..nkeys).filter(|k| k % nclients == ci).collect();
                let mut steps = Vec::new();
                let window = *cr.pick(&[1usize, 1, 2, 4]);
                let n = r.below(8) as usize;
                let fire_after = if firing == Some(ci) { Some(r.usize_below(n + 1)) } else { None };
                for j in 0..n {
                    if fire_after == Some(j) {
                        // the signal lands at a scripted state of this connection
                        match r.below(3) {
                            0 => {}
                            1 => {
                                // mid-frame: part of a request is on its way
                                steps.push(CStep::SendRaw(b"*2\r\n$3\r\nGET\r\n$".to_vec()));
                                steps.push(CStep::Flush);
                            }
                            _ => {
                                // mid-command: a complete request was just handed over
                                tag += 1;
                                steps.push(CStep::Send(Req::Set(*r.pick(&own), Val { tag, len: *r.pick(&[8, 8200, 30_000]) })));
                                steps.push(CStep::Flush);
                            }
                        }
                        steps.push(CStep::WaitShutdown);
                        if steps.iter().any(|s| matches!(s, CStep::SendRaw(_))) {
                            break;
                        }
                    }
                    let k = *r.pick(&own);
                    let req = match r.below(10) {
                        0..=4 => {
                            tag += 1;
                            Req::Set(k, Val { tag, len: *r.pick(&[8, 40, 8200, 30_000]) })
                        }
                        5..=7 => Req::Get(k),
                        _ => Req::Del(vec![k]),
                    };
                    steps.push(CStep::Send(req));
                    steps.push(CStep::Await(window - 1));
                    if r.one_in(4) {
                        steps.push(CStep::Pause(r.range(1, 4000)));
                    }
                }
                if fire_after == Some(n) {
                    steps.push(CStep::WaitShutdown);
                }
                // a tenth of the clients never go quiet: after their script they keep sending
                // bytes of an unfinished request at short intervals for minutes of simulated time
                {
                    let mut dr = Rng::stream(seed ^ ((ci as u64) << 16), "c16-dribble");
                    if dr.one_in(10) {
                        steps.push(CStep::Dribble { total_us: *dr.pick(&[90_000_000u64, 200_000_000]), gap_us: *dr.pick(&[50_000u64, 100_000, 400_000]) });
                    }
                }
                // every client keeps reading until the stream ends
                steps.push(CStep::ReadToEof);
                clients.push(ClientScript { start_us: *cr.pick(&[0, 0, 50, 3000]), chunk_mode: *cr.pick(&[0, 0, 1, 2]), chunk_n: *cr.pick(&[3, 64]), chunk_pause_us: *cr.pick(&[0, 0, 20]), hostile: false, steps });
            }
            let mut ns = base_net(&mut cr, keys, clients);
            if firing.is_none() {
                ns.shutdown_us = Some(*cr.pick(&[0, 1, 10, 100, 500, 1000, 3000, 10_000, 100_000]));
            }
            ns.net.accept_err_pm = *cr.pick(&[0, 0, 200]);
            ns.min_backoff_ms = *cr.pick(&[1, 500]);
            // in a third of the runs the connection limit is below the number of clients: at the
            // signal some clients are still queued behind the limit (never served), and the accept
            // loop is waiting for a slot, not for a connection
            {
                let mut lr = Rng::stream(seed, "c16-limit");
                if lr.one_in(3) {
                    ns.max_conn = *lr.pick(&[1usize, 1, 2]);
                    ns.net.backlog = *lr.pick(&[1usize, 2, 128]);
                    // a client that is queued behind the limit never reaches a scripted trigger:
                    // these runs always have the timed trigger as well
                    if ns.shutdown_us.is_none() {
                        ns.shutdown_us = Some(*lr.pick(&[500u64, 3000, 20_000, 200_000]));
                    }
                }
            }
            // in a third of the runs the server has been up for a while (seconds to hours of
            // simulated time) before the clients arrive and the signal fires: nothing about the
            // shutdown may depend on how long ago the server started
            {
                let mut ur = Rng::stream(seed, "c16-uptime");
                if ur.one_in(3) {
                    let up = *ur.pick(&[2_000_000u64, 6_000_000, 61_000_000, 3_600_000_000]);
                    for c in ns.clients.iter_mut() {
                        c.start_us += up;
                    }
                    if let Some(t) = ns.shutdown_us.as_mut() {
                        *t += up;
                    }
                }
            }
            let mut sim = SimParams::default();
            sim.num_cpus = *cr.pick(&[1, 2]);
            sim.strat = sched_strat(&mut cr);
            if cr.one_in(2) {
                sim.latency_pm = *cr.pick(&[200, 600]);
                sim.max_latency_us = *cr.pick(&[100, 5000]);
            }
            Scenario { check: check.to_string(), seed, sim, body: Body::Net(ns) }
        }
        other => panic!("no generator for check {}", other),
    }
}
