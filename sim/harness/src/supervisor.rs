//! Supervisor: runs batches of simulated runs in worker processes, aggregates evidence,
//! matches known findings, minimises and writes replay files.

use std::collections::{BTreeMap, BTreeSet};
use std::io::{BufRead, BufReader, Write};
use std::process::{Command, Stdio};
use std::sync::mpsc;
use std::time::Instant;

use serde::{Deserialize, Serialize};

use crate::gen;
use crate::scn::*;

fn arg(args: &[String], name: &str) -> Option<String> {
    args.iter().position(|a| a == name).and_then(|i| args.get(i + 1).cloned())
}

/// (runs, wall-clock budget in seconds) per check and tier. Quick tiers are sized for roughly
/// 20-40 s on 16 idle cores (the budget is only a safety net); thorough tiers for about 10 minutes.
fn plan(check: &str, tier: &str) -> (u64, f64) {
    let quick: u64 = match check {
        "C01" => 120_000,
        "C02" | "C04" => 100_000,
        "C19" => 90_000,
        "C05" | "C13" | "C17" => 80_000,
        "C12" | "C14" | "C15" => 60_000,
        "C08" => 45_000,
        "C03" => 12_000,
        "C09" => 8_000,
        "C11" => 5_000,
        "C18" => 4_500,
        "C20" => 4_000,
        "C10" => 3_500,
        "C16" => 3_000,
        "C06" => 2_500,
        _ => 2_000,
    };
    if tier == "thorough" {
        (quick * 12, 600.0)
    } else {
        (quick, 75.0)
    }
}

/// a run that makes no progress for this long (wall clock) is examined (see `supervise`)
const STALL_S: f64 = 90.0;

/// checks whose property has a termination clause: a reproducible non-termination is a violation
fn has_liveness(check: &str) -> bool {
    matches!(check, "C04" | "C11" | "C15" | "C16" | "C17" | "C06" | "C10")
}

#[derive(Clone, Debug, Serialize, Deserialize)]
pub struct KnownFinding {
    pub property: String,
    pub signature: String,
    pub status: String,
    #[serde(default)]
    pub commit: Option<String>,
    pub description: String,
}

fn load_known(path: &str) -> Vec<KnownFinding> {
    match std::fs::read_to_string(path) {
        Ok(s) => serde_json::from_str(&s).unwrap_or_default(),
        Err(_) => Vec::new(),
    }
}

#[derive(Clone, Debug, Serialize, Deserialize)]
pub struct ReplayFile {
    pub property: String,
    pub seed: u64,
    pub original_index: Option<u64>,
    pub minimised: bool,
    pub expected_class: String,
    pub expected_detail: String,
    pub scenario: Scenario,
    pub note: String,
}

enum Msg {
    Line(usize, String),
    Eof(usize, Option<i32>, Option<i32>),
}

static CHILD_PIDS: std::sync::Mutex<Vec<u32>> = std::sync::Mutex::new(Vec::new());

fn kill_children() {
    for pid in CHILD_PIDS.lock().unwrap().drain(..) {
        unsafe {
            libc::kill(pid as i32, libc::SIGKILL);
        }
        let _ = std::fs::remove_dir_all(format!("/dev/shm/bcsim.{}", pid));
    }
}

struct Worker {
    /// when the run in progress was started (wall clock), to notice a run that makes no progress
    started: Option<Instant>,
    in_progress: Option<u64>,
    last_fatal: Option<serde_json::Value>,
    next_start: u64,
    alive: bool,
}

fn spawn_worker(tx: &mpsc::Sender<Msg>, w: usize, check: &str, tier: &str, seed: u64, start: u64, step: u64, end: u64, deadline: f64) {
    let exe = std::env::current_exe().expect("current_exe");
    let mut child = Command::new(exe)
        .args(["worker", "--check", check, "--tier", tier, "--seed", &seed.to_string(), "--start", &start.to_string(), "--step", &step.to_string(), "--end", &end.to_string(), "--deadline", &format!("{}", deadline)])
        .stdin(Stdio::null())
        .stdout(Stdio::piped())
        .stderr(Stdio::inherit())
        .spawn()
        .expect("spawn worker");
    let out = child.stdout.take().unwrap();
    let tx = tx.clone();
    CHILD_PIDS.lock().unwrap().push(child.id());
    std::thread::spawn(move || {
        let rd = BufReader::new(out);
        for line in rd.lines() {
            match line {
                Ok(l) => {
                    if tx.send(Msg::Line(w, l)).is_err() {
                        break;
                    }
                }
                Err(_) => break,
            }
        }
        let pid = child.id();
        let st = child.wait().ok();
        CHILD_PIDS.lock().unwrap().retain(|p| *p != pid);
        // a worker that died inside a run could not clean up its scratch directory
        let _ = std::fs::remove_dir_all(format!("/dev/shm/bcsim.{}", pid));
        let code = st.and_then(|s| s.code());
        let sig = st.and_then(|s| std::os::unix::process::ExitStatusExt::signal(&s));
        let _ = tx.send(Msg::Eof(w, code, sig));
    });
}

/// Run one scenario in a child process (isolation: a deadlock verdict or a crash kills only it).
pub fn run_isolated(scn: &Scenario, timeout_s: f64) -> Result<RunOut, String> {
    let exe = std::env::current_exe().expect("current_exe");
    let mut child = Command::new(exe).arg("one").stdin(Stdio::piped()).stdout(Stdio::piped()).stderr(Stdio::null()).spawn().map_err(|e| e.to_string())?;
    {
        let mut si = child.stdin.take().unwrap();
        let _ = si.write_all(serde_json::to_string(scn).unwrap().as_bytes());
    }
    let out = child.stdout.take().unwrap();
    let (tx, rx) = mpsc::channel();
    std::thread::spawn(move || {
        let rd = BufReader::new(out);
        let lines: Vec<String> = rd.lines().map_while(|l| l.ok()).collect();
        let _ = tx.send(lines);
    });
    let lines = match rx.recv_timeout(std::time::Duration::from_secs_f64(timeout_s)) {
        Ok(l) => l,
        Err(_) => {
            let pid = child.id();
            let _ = child.kill();
            let _ = child.wait();
            let _ = std::fs::remove_dir_all(format!("/dev/shm/bcsim.{}", pid));
            return Err("timeout".into());
        }
    };
    let pid = child.id();
    let st = child.wait().map_err(|e| e.to_string())?;
    let _ = std::fs::remove_dir_all(format!("/dev/shm/bcsim.{}", pid));
    let mut fatal = None;
    for l in &lines {
        if let Ok(v) = serde_json::from_str::<serde_json::Value>(l) {
            match v["t"].as_str() {
                Some("done") => {
                    let out: RunOut = serde_json::from_value(v["out"].clone()).map_err(|e| e.to_string())?;
                    return Ok(out);
                }
                Some("fatal") => fatal = Some(v),
                _ => {}
            }
        }
    }
    if let Some(f) = fatal {
        let mut o = RunOut::default();
        o.evaluations = 1;
        o.violations.push(fatal_violation(&f));
        return Ok(o);
    }
    if let Some(sig) = std::os::unix::process::ExitStatusExt::signal(&st) {
        let mut o = RunOut::default();
        o.evaluations = 1;
        o.violations.push(Violation { class: "process-died".into(), detail: format!("the process was terminated by signal {}", sig), signature: "".into() });
        return Ok(o);
    }
    Err(format!("child exited with {:?} and no result", st.code()))
}

fn fatal_violation(f: &serde_json::Value) -> Violation {
    let kind = f["kind"].as_str().unwrap_or("?");
    Violation { class: kind.to_string(), detail: format!("{} at step {}: {}", kind, f["step"], f["detail"].as_str().unwrap_or("")), signature: "".into() }
}

#[derive(Default)]
struct Agg {
    runs: u64,
    evaluations: u64,
    nontrivial_runs: u64,
    sigs: BTreeSet<u64>,
    schedules: BTreeSet<u64>,
    probes: BTreeMap<String, u64>,
    faults: BTreeMap<String, u64>,
    sim_ns: u128,
    steps: u128,
    switches: u128,
    violations: Vec<(u64, Violation)>,
    pinned: BTreeMap<u64, Scenario>,
    harness_errors: Vec<String>,
    deadline_hit: bool,
}

pub fn supervise(args: &[String]) -> i32 {
    let check = arg(args, "--check").expect("--check");
    let tier = arg(args, "--tier").unwrap_or_else(|| "quick".into());
    let seed: u64 = arg(args, "--seed").and_then(|s| s.parse().ok()).unwrap_or(1);
    let (mut runs, mut budget) = plan(&check, &tier);
    if let Some(r) = arg(args, "--runs") {
        runs = r.parse().unwrap();
    }
    if let Some(b) = arg(args, "--budget") {
        budget = b.parse().unwrap();
    }
    let workers: usize = arg(args, "--workers").and_then(|s| s.parse().ok()).unwrap_or_else(|| std::thread::available_parallelism().map(|n| n.get()).unwrap_or(4).min(16));
    let verif = arg(args, "--verif-dir").unwrap_or_else(|| "/verif".into());
    let evidence_path = arg(args, "--evidence").unwrap_or_else(|| format!("{}/evidence/{}.json", verif, check));
    let replay_dir = arg(args, "--replays").unwrap_or_else(|| format!("{}/replays", verif));
    let known = load_known(&arg(args, "--known").unwrap_or_else(|| format!("{}/known_findings.json", verif)));
    let t0 = Instant::now();
    println!("bcsim: check={} tier={} VERIF_SEED={} runs={} workers={} budget={}s", check, tier, seed, runs, workers, budget);

    let (tx, rx) = mpsc::channel::<Msg>();
    let mut ws: Vec<Worker> = Vec::new();
    for w in 0..workers {
        spawn_worker(&tx, w, &check, &tier, seed, w as u64, workers as u64, runs, budget);
        ws.push(Worker { started: None, in_progress: None, last_fatal: None, next_start: w as u64, alive: true });
    }
    let mut agg = Agg::default();
    let mut alive = workers;
    let mut last_msg = Instant::now();
    let mut first_violation_at: Option<Instant> = None;
    let mut stall_checked: std::collections::BTreeSet<u64> = std::collections::BTreeSet::new();
    while alive > 0 {
        // once a violation is in hand the verdict is settled: give the other workers a little
        // time to finish what they are in (a lower-numbered run may fail too), then stop. Trees
        // that make threads spin would otherwise burn millions of steps in every remaining run.
        if !agg.violations.is_empty() {
            let t = *first_violation_at.get_or_insert_with(Instant::now);
            if t.elapsed().as_secs_f64() > 10.0 {
                kill_children();
                break;
            }
        }
        // a run that has made no progress for a long time (runs take milliseconds to a few
        // seconds): for the properties with a termination clause it is re-run alone in a fresh
        // process, and if it does not finish there either, the code under test computes without
        // ever reaching a synchronisation point, a system call or the clock -- it hangs
        if has_liveness(&check) && agg.violations.is_empty() {
            let stalled: Option<u64> = ws.iter().filter(|x| x.alive).filter_map(|x| match (x.in_progress, x.started) {
                (Some(i), Some(t)) if t.elapsed().as_secs_f64() > STALL_S && !stall_checked.contains(&i) => Some(i),
                _ => None,
            }).min();
            if let Some(i) = stalled {
                stall_checked.insert(i);
                let rs = simrt::rng::run_seed(seed, &check, i);
                let scn = crate::gen::generate(&check, &tier, rs);
                match run_isolated(&scn, STALL_S) {
                    Err(e) if e == "timeout" => {
                        agg.runs += 1;
                        agg.evaluations += 1;
                        agg.violations.push((i, Violation { class: "no-progress".into(), detail: format!("run {} does not finish: no progress for {} s of wall time in its worker and again in a fresh process (runs of this check take milliseconds to seconds); a thread of the code under test computes without reaching any synchronisation point, system call or clock", i, STALL_S), signature: "".into() }));
                    }
                    Ok(_) => agg.harness_errors.push(format!("a worker made no progress in run {} for {} s, but the run finishes in a fresh process", i, STALL_S)),
                    Err(e) => agg.harness_errors.push(format!("a worker made no progress in run {} for {} s; re-running it alone failed: {}", i, STALL_S, e)),
                }
                continue;
            }
        }
        let msg = match rx.recv_timeout(std::time::Duration::from_secs_f64(1.0)) {
            Ok(m) => {
                last_msg = Instant::now();
                m
            }
            Err(_) => {
                if last_msg.elapsed().as_secs_f64() < budget + 120.0 {
                    continue;
                }
                let stuck: Vec<String> = ws.iter().enumerate().filter_map(|(w, x)| x.in_progress.map(|i| format!("worker {} in run {}", w, i))).collect();
                agg.harness_errors.push(format!("supervisor timed out waiting for workers ({})", stuck.join(", ")));
                kill_children();
                break;
            }
        };
        match msg {
            Msg::Line(w, l) => {
                let v: serde_json::Value = match serde_json::from_str(&l) {
                    Ok(v) => v,
                    Err(_) => continue,
                };
                match v["t"].as_str() {
                    Some("start") => {
                        ws[w].in_progress = v["i"].as_u64();
                        ws[w].started = Some(Instant::now());
                    }
                    Some("done") => {
                        let i = v["i"].as_u64().unwrap_or(0);
                        ws[w].in_progress = None;
                        ws[w].started = None;
                        ws[w].next_start = i + workers as u64;
                        match serde_json::from_value::<RunOut>(v["out"].clone()) {
                            Ok(out) => absorb(&mut agg, i, out),
                            Err(e) => agg.harness_errors.push(format!("bad result line for run {}: {}", i, e)),
                        }
                    }
                    Some("fatal") => {
                        ws[w].last_fatal = Some(v);
                    }
                    Some("deadline") => {
                        agg.deadline_hit = true;
                    }
                    _ => {}
                }
            }
            Msg::Eof(w, code, sig) => {
                ws[w].alive = false;
                alive -= 1;
                if let Some(i) = ws[w].in_progress.take() {
                    // the worker died inside run i
                    agg.runs += 1;
                    agg.evaluations += 1;
                    if let Some(f) = ws[w].last_fatal.take() {
                        let v = fatal_violation(&f);
                        if v.class == "step-cap" && !has_liveness(&check) {
                            agg.harness_errors.push(format!("run {} hit the step cap: {}", i, v.detail));
                        } else {
                            agg.violations.push((i, v));
                        }
                    } else if let Some(s) = sig {
                        agg.violations.push((i, Violation { class: "process-died".into(), detail: format!("the process was terminated by signal {} during run {}", s, i), signature: "".into() }));
                    } else {
                        agg.harness_errors.push(format!("worker {} exited with code {:?} during run {}", w, code, i));
                    }
                    // carry on with the rest of this worker's share
                    let next = i + workers as u64;
                    let left = budget - t0.elapsed().as_secs_f64();
                    if next < runs && left > 1.0 && agg.violations.len() < 50 && agg.harness_errors.len() < 5 {
                        spawn_worker(&tx, w, &check, &tier, seed, next, workers as u64, runs, left);
                        ws[w].alive = true;
                        alive += 1;
                    }
                } else if code == Some(72) {
                    // the worker reported a run that left parked threads behind and asked to be replaced
                    let next = ws[w].next_start;
                    let left = budget - t0.elapsed().as_secs_f64();
                    if next < runs && left > 1.0 && agg.violations.len() < 50 {
                        spawn_worker(&tx, w, &check, &tier, seed, next, workers as u64, runs, left);
                        ws[w].alive = true;
                        alive += 1;
                    }
                } else if code != Some(0) {
                    agg.harness_errors.push(format!("worker {} exited with code {:?} signal {:?}", w, code, sig));
                }
            }
        }
    }
    let wall = t0.elapsed().as_secs_f64();

    // ---- violations: known findings, minimisation, replay files ---------------------------
    agg.violations.sort_by(|a, b| a.0.cmp(&b.0));
    let mut known_hit: BTreeMap<String, (u64, String)> = BTreeMap::new();
    let mut fresh: Vec<(u64, Violation)> = Vec::new();
    for (i, v) in &agg.violations {
        let k = known.iter().find(|k| k.property == check && k.status == "known" && !v.signature.is_empty() && k.signature == v.signature);
        match k {
            Some(k) => {
                let e = known_hit.entry(k.signature.clone()).or_insert((0, k.description.clone()));
                e.0 += 1;
            }
            None => fresh.push((*i, v.clone())),
        }
    }
    for (sig, (n, desc)) in &known_hit {
        println!("KNOWN-FINDING: property={} {} [signature {}; seen in {} runs]", check, desc, sig, n);
    }
    let mut exit = 0;
    let mut reported_classes: BTreeSet<String> = BTreeSet::new();
    let mut replay_paths = Vec::new();
    for (i, v) in &fresh {
        let key = format!("{}|{}", v.class, v.signature);
        if reported_classes.contains(&key) || reported_classes.len() >= 3 {
            continue;
        }
        reported_classes.insert(key);
        let rs = simrt::rng::run_seed(seed, &check, *i);
        let scn = match agg.pinned.get(i) {
            Some(p) => p.clone(),
            None => gen::generate(&check, &tier, rs),
        };
        println!("violation in run {} (seed {}): [{}] {}", i, rs, v.class, v.detail);
        let (min_scn, min_v, tried) = minimise(&scn, v, 60.0);
        println!("minimised after {} candidate runs: [{}] {}", tried, min_v.class, min_v.detail);
        let rf = ReplayFile {
            property: check.clone(),
            seed: rs,
            original_index: Some(*i),
            minimised: tried > 0,
            expected_class: min_v.class.clone(),
            expected_detail: min_v.detail.clone(),
            scenario: min_scn,
            note: format!("found by `bcsim supervise --check {} --tier {} --seed {}` in run {}; replay with ./check {} --replay <this file>", check, tier, seed, i, check),
        };
        let _ = std::fs::create_dir_all(&replay_dir);
        let path = format!("{}/{}-{}-{}.json", replay_dir, check, rs, v.class);
        std::fs::write(&path, serde_json::to_string_pretty(&rf).unwrap()).expect("write replay");
        println!("VIOLATION property={} replay={}", check, path);
        replay_paths.push(path);
        exit = 1;
    }
    if !agg.harness_errors.is_empty() {
        for e in agg.harness_errors.iter().take(5) {
            println!("HARNESS-ERROR: {}", e);
        }
        if exit == 0 {
            exit = 2;
        }
    }

    // ---- evidence ----------------------------------------------------------------------------
    let mut samples = Vec::new();
    for i in 0..3u64.min(runs) {
        let rs = simrt::rng::run_seed(seed, &check, i);
        let scn = gen::generate(&check, &tier, rs);
        samples.push(sample_of(&scn));
    }
    let level = match check.as_str() {
        "C03" | "C09" | "C20" => "fault_enumeration",
        _ => "exploration",
    };
    let zero_probes: Vec<&str> = expected_probes(&check).into_iter().filter(|p| agg.probes.get(*p).copied().unwrap_or(0) == 0).collect();
    let ev = serde_json::json!({
        "property_id": check,
        "tier": tier,
        "seed": seed,
        "level": level,
        "wall_s": wall,
        "violations": fresh.len(),
        "coverage": {
            "evaluations": agg.evaluations,
            "distinct_nontrivial": agg.sigs.len(),
            "rule": rule_text(&check),
            "samples": samples,
            "simulated_runs": agg.runs,
            "nontrivial_runs": agg.nontrivial_runs,
            "runs_per_hour": if wall > 0.0 { (agg.runs as f64 / wall * 3600.0) as u64 } else { 0 },
            "seeds_per_hour": if wall > 0.0 { (agg.runs as f64 / wall * 3600.0) as u64 } else { 0 },
            "evaluations_per_hour": if wall > 0.0 { (agg.evaluations as f64 / wall * 3600.0) as u64 } else { 0 },
            "simulated_time_s": agg.sim_ns as f64 / 1e9,
            "scheduling_points": agg.steps as u64,
            "context_switches": agg.switches as u64,
            "distinct_schedules": agg.schedules.len(),
            "faults_injected": agg.faults,
            "reach_probes": agg.probes,
            "reach_probes_at_zero": zero_probes,
            "known_findings_matched": known_hit.iter().map(|(k, v)| (k.clone(), v.0)).collect::<BTreeMap<_, _>>(),
            "budget_exhausted_before_all_runs": agg.deadline_hit,
            "workers": workers,
            "components": components(),
            "replays": replay_paths,
        },
        "assumptions": assumptions(&check),
    });
    if let Some(dir) = std::path::Path::new(&evidence_path).parent() {
        let _ = std::fs::create_dir_all(dir);
    }
    std::fs::write(&evidence_path, serde_json::to_string_pretty(&ev).unwrap()).expect("write evidence");
    println!(
        "bcsim: {} runs, {} evaluations, {} distinct non-trivial signatures, {:.1}s wall, {:.1}s simulated, {} violations, {} known-finding hits",
        agg.runs,
        agg.evaluations,
        agg.sigs.len(),
        wall,
        agg.sim_ns as f64 / 1e9,
        fresh.len(),
        known_hit.values().map(|v| v.0).sum::<u64>()
    );
    if !zero_probes.is_empty() {
        println!("warning: reach probes that never fired: {:?}", zero_probes);
    }
    exit
}

fn absorb(agg: &mut Agg, i: u64, out: RunOut) {
    agg.runs += 1;
    agg.evaluations += out.evaluations.max(1);
    if out.nontrivial {
        agg.nontrivial_runs += 1;
        for s in &out.sigs {
            agg.sigs.insert(*s);
        }
    }
    agg.schedules.insert(out.trace_hash);
    for (k, v) in out.probes {
        *agg.probes.entry(k).or_insert(0) += v;
    }
    for (k, v) in out.faults {
        *agg.faults.entry(k).or_insert(0) += v;
    }
    agg.sim_ns += out.sim_ns as u128;
    agg.steps += out.steps as u128;
    agg.switches += out.switches as u128;
    if let Some(p) = out.pinned {
        agg.pinned.insert(i, *p);
    }
    for v in out.violations {
        agg.violations.push((i, v));
    }
}

fn sample_of(scn: &Scenario) -> serde_json::Value {
    match &scn.body {
        Body::Store(s) => {
            let ops: Vec<String> = s.threads.iter().map(|t| t.iter().take(40).map(|o| format!("{:?}", o)).collect::<Vec<_>>().join(" ")).collect();
            serde_json::json!({
                "seed": scn.seed,
                "config": format!("{:?}", s.cfg),
                "sim": format!("{:?}", scn.sim),
                "keys": s.keys.iter().map(|k| crate::store::hex(k)).collect::<Vec<_>>(),
                "threads": ops,
                "fault": format!("{:?}", s.fault),
            })
        }
        Body::Net(n) => serde_json::json!({"seed": scn.seed, "net": format!("{:?}", n)}),
    }
}

fn rule_text(check: &str) -> String {
    let common = "Each case is one simulated run: configuration, key universe, value sizes, operation sequence, fault kinds and scheduler strategy are all drawn from VERIF_SEED (run i uses seed mix(VERIF_SEED, check, i)); 'evaluations' counts the cases judged by the oracle. ";
    let specific = match check {
        "C01" | "C02" | "C05" | "C12" | "C13" | "C14" | "C19" => "A run is non-trivial if at least one reach condition fired in it (a second data file was created, a merge ran, a reopen happened, a hint file existed at close, the accounting was compared). Distinct = distinct coverage signature: hash of (operation-kind sequence with value-size class, max_file_size, cache, pool); a quarter of C19's runs are concurrent histories (writer, reader and merging threads) whose signature is the schedule hash.",
        "C03" | "C09" => "One evaluation = one crash (C09: power-loss) image recovered with the real open and judged. A run is non-trivial if it produced more than one image. Distinct = distinct coverage signature of an image: hash of (kind of the I/O record the image was cut after, data or hint file, kind of the enclosing operation, whether an operation was in flight, number of data files (capped at 5), number of hint files (capped at 3), an empty data file present, bytes lost / tail torn (C09), image variant).",
        "C20" => "One evaluation = one re-run of a workload with exactly one file-system call failed. Non-trivial if the fault fired. Distinct = distinct coverage signature: hash of (kind of the failed call, kind of the enclosing operation incl. two-write entries, data or hint file, errno, clean failure or short-write-then-error).",
        "C04" | "C11" | "C10" | "C15" | "C16" | "C17" => "Distinct = distinct schedule: hash of the sequence of scheduler decisions (step, chosen thread) and task/waiter picks of the run. Non-trivial if the run had real interleaving (more context switches than threads; for the network checks: a command ran inside the store / clients were served).",
        "C06" => "Distinct = distinct coverage signature: hash of (server read segmentation mode, client chunking mode, number of requests (capped), small socket capacity). Non-trivial if at least one request was sent.",
        "C08" => "Distinct = distinct coverage signature: hash of (set of frame classes in the sequence, read segmentation mode, stream cut inside a frame, writer stalled inside a frame, real or raw writer).",
        "C18" => "Distinct = distinct coverage signature: hash of (trigger placement mode, policy never, trigger predicate true, interval sync on, number of merges observed (capped at 3)).",
        _ => "Distinct = distinct coverage signature.",
    };
    format!("{}{}", common, specific)
}

fn expected_probes(check: &str) -> Vec<&'static str> {
    match check {
        "C01" => vec!["merge_selected_all_nonempty", "merge_selected_strict_subset", "merge_selected_none", "merge_output_rolled_over"],
        "C02" => vec!["reopen", "reopen_without_writes", "timer_merge_ran"],
        "C05" => vec!["merge_selected_strict_subset", "merge_output_rolled_over", "reopen"],
        "C12" => vec!["several_hint_files", "hint_file_with_many_entries", "hint_file_with_dead_entries", "empty_hint_file"],
        "C13" => vec!["merge_selected_all_nonempty", "merge_with_nothing_live", "merge_selected_none"],
        "C03" => vec!["crash_point_inside_merge", "crash_point_inside_multi_write_entry", "crash_point_inside_recovery_open", "image_with_empty_data_file", "concurrent_crash_workload"],
        "C09" => vec!["power_image_lost_unsynced_bytes", "power_image_torn_tail", "hint_durable_beyond_data", "crash_point_inside_merge", "concurrent_crash_workload"],
        "C04" => vec!["mutex_contended", "backoff_spin", "rwlock_shared_contended", "rwlock_exclusive_contended"],
        "C06" => vec!["real_client_exchange", "request_cut_then_earlier_replies_awaited"],
        "C08" => vec!["real_writer_over_stream", "stalled_inside_a_frame", "stream_cut_inside_a_frame"],
        "C10" => vec!["hostile_connection_closed_by_server", "task_panic_contained"],
        "C11" => vec!["two_commands_in_store_simultaneously", "select_entered"],
        "C14" => vec!["crash_image_cut_inside_merge_then_continued", "image_lacks_highest_id_of_lineage", "reopen"],
        "C15" => vec!["handler_panic_injected", "store_error_injected", "limit_reached", "task_panic_contained"],
        "C16" => vec!["request_unanswered_at_shutdown", "select_entered"],
        "C17" => vec!["stale_handle_rejected", "reopen_at_once", "reopen_while_old_worker_alive", "drop_while_worker_in_blocking_call", "drop_while_worker_sleeping", "client_op_rejected_as_closed"],
        "C18" => vec!["trigger_by_dead_bytes_only_just_crossed", "trigger_by_fragmentation_only_just_crossed", "dead_bytes_exactly_at_trigger", "fragmentation_exactly_at_trigger", "policy_never", "interval_sync", "jitter_extreme", "sync_obligations_checked", "sync_tick_waited_for_writer_or_disk"],
        "C19" => vec!["reopen", "merge_selected_all_nonempty", "accounting_compared_after_concurrent_history"],
        "C20" => vec!["fault_during_merge", "fault_during_multi_write_entry", "fault_during_open", "fault_in_background_task", "fault_reported_as_error"],
        _ => vec![],
    }
}

fn components() -> serde_json::Value {
    serde_json::json!({
        "real": ["all of /repo/src library code (store, log, bufio, utils, config, frame, connection, command, server, client, shutdown)", "bincode, serde, bytes, lru, memmap2 (real mmap of real tmpfs files), thiserror, tracing", "dashmap 5.2.0 source (seeded hasher, lock from facade)", "tokio sync / io-util / join!"],
        "simulated": ["tokio runtime, tasks, blocking pool, timers, select!, TCP (simrt)", "parking_lot raw mutex/rwlock, crossbeam ArrayQueue/AtomicCell/Backoff", "rand::thread_rng, chrono::Local::now, num_cpus", "crash / power-loss images constructed from the recorded shadow of the I/O log", "OS scheduler (one baton holder at a time)"],
        "not_run": ["src/bin/svr.rs, src/bin/cli.rs, conf.rs file loading, telemetry set-up"]
    })
}

fn assumptions(check: &str) -> Vec<String> {
    let mut v = vec![
        "the facades preserve the semantics the code relies on (mutual exclusion, tokio select!/spawn semantics, reliable ordered TCP)".to_string(),
        "a clean batch is evidence from sampled schedules/faults, not a proof".to_string(),
    ];
    match check {
        "C03" | "C14" => v.push("process-kill model: the directory holds exactly the effects of a prefix of the recorded file-system calls".into()),
        "C09" => v.push("power-loss model as stated in the property: per file any suffix after its last completed fsync may be lost; creations and removals are persistent".into()),
        "C20" => v.push("one transient failure per evaluation, at every write/create/fsync/unlink call of the workload in turn; a third (quick) or half (thorough) of the workloads also enumerate read-side calls (read, pread, fstat, mmap, opendir, open for reading), where only the truthfulness clauses are demanded, not the error report".into()),
        _ => {}
    }
    v
}

// ---------------------------------------------------------------------------------------------
// minimisation

fn same_violation(out: &RunOut, want: &Violation) -> Option<Violation> {
    out.violations.iter().find(|v| v.class == want.class && v.signature == want.signature).cloned()
}

fn store_candidates(scn: &Scenario) -> Vec<Scenario> {
    let mut out = Vec::new();
    let s = match &scn.body {
        Body::Store(s) => s,
        _ => return out,
    };
    // 1. drop chunks of operations, biggest first
    for (ti, t) in s.threads.iter().enumerate() {
        let n = t.len();
        let mut chunk = n / 2;
        while chunk >= 1 {
            let mut start = 0;
            while start < n {
                let end = (start + chunk).min(n);
                let mut c = scn.clone();
                if let Body::Store(cs) = &mut c.body {
                    cs.threads[ti].drain(start..end);
                    if ti > 0 && cs.threads[ti].is_empty() {
                        cs.threads.remove(ti);
                    }
                }
                out.push(c);
                start += chunk;
            }
            if chunk == 1 {
                break;
            }
            chunk /= 2;
        }
    }
    // 2. simplify operations
    for (ti, t) in s.threads.iter().enumerate() {
        for (oi, op) in t.iter().enumerate() {
            let simpler: Vec<Op> = match op {
                Op::Set(k, v) if v.len > 8 => vec![Op::Set(*k, Val { tag: v.tag, len: 8 }), Op::Set(*k, Val { tag: v.tag, len: v.len / 2 })],
                Op::Reopen(false) => vec![Op::Reopen(true)],
                Op::Retune(_) => vec![Op::Reopen(true)],
                Op::Pass(ms) if *ms > 1 => vec![Op::Pass(ms / 10)],
                _ => vec![],
            };
            for sop in simpler {
                let mut c = scn.clone();
                if let Body::Store(cs) = &mut c.body {
                    cs.threads[ti][oi] = sop;
                }
                out.push(c);
            }
        }
    }
    // 3. simplify configuration and simulation parameters
    let mut push_cfg = |f: &dyn Fn(&mut Scenario)| {
        let mut c = scn.clone();
        f(&mut c);
        if c != *scn {
            out.push(c);
        }
    };
    push_cfg(&|c| c.sim = SimParams { strat: c.sim.strat.clone(), num_cpus: c.sim.num_cpus, ..SimParams::default() });
    push_cfg(&|c| c.sim.strat = Strat::Fifo);
    push_cfg(&|c| c.sim.num_cpus = 1);
    push_cfg(&|c| {
        if let Body::Store(s) = &mut c.body {
            s.cfg.cache = 256;
        }
    });
    push_cfg(&|c| {
        if let Body::Store(s) = &mut c.body {
            s.cfg.pool = 1;
        }
    });
    push_cfg(&|c| {
        if let Body::Store(s) = &mut c.body {
            s.cfg.max_file_size = 1 << 20;
        }
    });
    push_cfg(&|c| {
        if let Body::Store(s) = &mut c.body {
            s.cfg.merge_always = false;
        }
    });
    push_cfg(&|c| {
        if let Body::Store(s) = &mut c.body {
            s.cfg.thr_small = u64::MAX;
        }
    });
    out
}

pub fn minimise(scn: &Scenario, want: &Violation, budget_s: f64) -> (Scenario, Violation, u32) {
    let t0 = Instant::now();
    let mut best = scn.clone();
    let mut best_v = want.clone();
    let mut tried = 0u32;
    // confirm it reproduces in isolation first
    match run_isolated(&best, 60.0) {
        Ok(out) => match same_violation(&out, want) {
            Some(v) => best_v = v,
            None => return (best, best_v, 0),
        },
        Err(_) => return (best, best_v, 0),
    }
    tried += 1;
    'outer: loop {
        let cands = match &best.body {
            Body::Store(_) => store_candidates(&best),
            Body::Net(_) => crate::supervisor::net_candidates(&best),
        };
        for c in cands {
            if t0.elapsed().as_secs_f64() > budget_s || tried > 2000 {
                break 'outer;
            }
            tried += 1;
            if let Ok(out) = run_isolated(&c, 30.0) {
                if let Some(v) = same_violation(&out, want) {
                    best = c;
                    best_v = v;
                    continue 'outer;
                }
            }
        }
        break;
    }
    (best, best_v, tried)
}

pub fn net_candidates(_scn: &Scenario) -> Vec<Scenario> {
    Vec::new()
}

// ---------------------------------------------------------------------------------------------
// replay

pub fn replay(args: &[String]) -> i32 {
    let file = arg(args, "--file").expect("--file");
    let s = match std::fs::read_to_string(&file) {
        Ok(s) => s,
        Err(e) => {
            println!("HARNESS-ERROR: cannot read {}: {}", file, e);
            return 2;
        }
    };
    let rf: ReplayFile = match serde_json::from_str(&s) {
        Ok(r) => r,
        Err(e) => {
            println!("HARNESS-ERROR: cannot parse {}: {}", file, e);
            return 2;
        }
    };
    let res = run_isolated(&rf.scenario, if rf.expected_class == "no-progress" { STALL_S } else { 300.0 });
    if rf.expected_class == "no-progress" {
        if let Err(e) = &res {
            if e == "timeout" {
                println!("replay reproduces: [no-progress] the run does not finish within {} s in a fresh process", STALL_S);
                println!("VIOLATION property={} replay={}", rf.property, file);
                return 1;
            }
        }
    }
    match res {
        Ok(out) => {
            let hit = out.violations.iter().find(|v| v.class == rf.expected_class);
            match hit {
                Some(v) => {
                    println!("replay reproduces: [{}] {}", v.class, v.detail);
                    if v.detail != rf.expected_detail {
                        println!("note: detail differs from the recorded one: {}", rf.expected_detail);
                    }
                    println!("VIOLATION property={} replay={}", rf.property, file);
                    1
                }
                None => {
                    if let Some(v) = out.violations.first() {
                        println!("replay shows a different violation: [{}] {}", v.class, v.detail);
                        println!("VIOLATION property={} replay={}", rf.property, file);
                        1
                    } else {
                        println!("replay: the property held on this scenario (expected [{}])", rf.expected_class);
                        0
                    }
                }
            }
        }
        Err(e) => {
            println!("HARNESS-ERROR: replay run failed: {}", e);
            2
        }
    }
}

// ---------------------------------------------------------------------------------------------
// determinism self-test: every run twice, in different processes, hashes must agree

pub fn selftest(args: &[String]) -> i32 {
    let checks: Vec<String> = arg(args, "--checks").unwrap_or_else(|| "C01".into()).split(',').map(|s| s.to_string()).collect();
    let runs: u64 = arg(args, "--runs").and_then(|s| s.parse().ok()).unwrap_or(200);
    let seed: u64 = arg(args, "--seed").and_then(|s| s.parse().ok()).unwrap_or(1);
    let tier = arg(args, "--tier").unwrap_or_else(|| "quick".into());
    let mut bad = 0;
    for check in &checks {
        let a = collect_hashes(check, &tier, seed, runs, 16);
        let b = collect_hashes(check, &tier, seed, runs, 3);
        let mut diverged = Vec::new();
        for i in 0..runs {
            if a.get(&i) != b.get(&i) {
                diverged.push(i);
            }
        }
        println!("selftest {}: {} runs x2 (16 workers vs 3 workers), {} divergent {:?}", check, runs, diverged.len(), diverged.iter().take(10).collect::<Vec<_>>());
        bad += diverged.len();
    }
    if bad > 0 {
        println!("HARNESS-ERROR: nondeterminism detected");
        2
    } else {
        0
    }
}

fn collect_hashes(check: &str, tier: &str, seed: u64, runs: u64, workers: usize) -> BTreeMap<u64, (u64, usize)> {
    let (tx, rx) = mpsc::channel::<Msg>();
    for w in 0..workers {
        spawn_worker(&tx, w, check, tier, seed, w as u64, workers as u64, runs, 600.0);
    }
    drop(tx);
    let mut m = BTreeMap::new();
    for msg in rx {
        if let Msg::Line(_, l) = msg {
            if let Ok(v) = serde_json::from_str::<serde_json::Value>(&l) {
                if v["t"] == "done" {
                    if let Ok(out) = serde_json::from_value::<RunOut>(v["out"].clone()) {
                        m.insert(v["i"].as_u64().unwrap(), (out.obs_hash, out.violations.len()));
                    }
                }
            }
        }
    }
    m
}
