//! Network-level simulation engine: the real `Server` on the simulated runtime, real store,
//! simulated TCP; scripted clients are simulated threads using the blocking side of the TCP
//! model.

use std::collections::{BTreeMap, VecDeque};
use std::sync::atomic::{AtomicBool, AtomicU32, AtomicU64, Ordering};
use std::sync::{Arc, Mutex as StdMutex};
use std::task::Poll;

use bitcask::storage::bitcask as bc;
use bitcask::storage::KeyValueStorage;
use bytes::Bytes;
use simrt::net::{Endpoint, NetCfg, ReadMode, Waiter};
use simrt::rng::{mix, Rng};
use simrt::sched::Why;

use crate::netscn::*;
use crate::resp::{self, Reply};
use crate::scn::*;
use crate::store::{self, hex, Ctx, Model};

pub const PORT: u16 = 6379;

// ---------------------------------------------------------------------------------------------
// storage wrapper (the server's `KV` type parameter is an existing seam)

pub struct KvCtl {
    /// connection ordinals whose handler must panic at its next command
    pub panic_conns: StdMutex<std::collections::BTreeSet<u32>>,
    /// connection ordinals whose next store operation must fail
    pub fail_conns: StdMutex<std::collections::BTreeSet<u32>>,
    pub conns_created: AtomicU32,
    pub panics_fired: AtomicU32,
    pub errors_fired: AtomicU32,
    /// commands currently executing inside the store, per key (reach probe for C11)
    pub in_store: AtomicU32,
    pub max_in_store: AtomicU32,
}

#[derive(Debug)]
pub struct InjectedError;
impl std::fmt::Display for InjectedError {
    fn fmt(&self, f: &mut std::fmt::Formatter<'_>) -> std::fmt::Result {
        write!(f, "injected storage error")
    }
}
impl std::error::Error for InjectedError {}

#[derive(Debug)]
pub enum KvError {
    Store(bc::Error),
    Injected(InjectedError),
}
impl std::fmt::Display for KvError {
    fn fmt(&self, f: &mut std::fmt::Formatter<'_>) -> std::fmt::Result {
        match self {
            KvError::Store(e) => write!(f, "{}", e),
            KvError::Injected(e) => write!(f, "{}", e),
        }
    }
}
impl std::error::Error for KvError {}

/// depth 0: the listener's instance; depth 1: a handler's (one per connection, numbered in
/// accept order); depth 2: the per-command clone.
pub struct Kv {
    inner: bc::Handle,
    ctl: Arc<KvCtl>,
    depth: u32,
    conn: u32,
}

impl Clone for Kv {
    fn clone(&self) -> Self {
        match self.depth {
            0 => {
                let conn = self.ctl.conns_created.fetch_add(1, Ordering::SeqCst) + 1;
                Kv { inner: self.inner.clone(), ctl: self.ctl.clone(), depth: 1, conn }
            }
            _ => {
                if self.depth == 1 && self.ctl.panic_conns.lock().unwrap_or_else(|e| e.into_inner()).remove(&self.conn) {
                    self.ctl.panics_fired.fetch_add(1, Ordering::SeqCst);
                    simrt::sched::probe("handler_panic_injected");
                    panic!("injected handler panic (connection {})", self.conn);
                }
                Kv { inner: self.inner.clone(), ctl: self.ctl.clone(), depth: self.depth + 1, conn: self.conn }
            }
        }
    }
}

impl Kv {
    fn maybe_fail(&self) -> Result<(), KvError> {
        if self.conn != 0 && self.ctl.fail_conns.lock().unwrap_or_else(|e| e.into_inner()).remove(&self.conn) {
            self.ctl.errors_fired.fetch_add(1, Ordering::SeqCst);
            simrt::sched::probe("store_error_injected");
            return Err(KvError::Injected(InjectedError));
        }
        Ok(())
    }
    fn enter(&self) {
        let n = self.ctl.in_store.fetch_add(1, Ordering::SeqCst) + 1;
        self.ctl.max_in_store.fetch_max(n, Ordering::SeqCst);
        if n >= 2 {
            simrt::sched::probe("two_commands_in_store_simultaneously");
        }
    }
    fn leave(&self) {
        self.ctl.in_store.fetch_sub(1, Ordering::SeqCst);
    }
}

impl KeyValueStorage for Kv {
    type Error = KvError;
    fn set(&self, key: Bytes, value: Bytes) -> Result<(), KvError> {
        self.maybe_fail()?;
        self.enter();
        let r = self.inner.set(key, value).map_err(KvError::Store);
        self.leave();
        r
    }
    fn get(&self, key: Bytes) -> Result<Option<Bytes>, KvError> {
        self.maybe_fail()?;
        self.enter();
        let r = self.inner.get(key).map_err(KvError::Store);
        self.leave();
        r
    }
    fn del(&self, key: Bytes) -> Result<bool, KvError> {
        self.maybe_fail()?;
        self.enter();
        let r = self.inner.del(key).map_err(KvError::Store);
        self.leave();
        r
    }
}

// ---------------------------------------------------------------------------------------------
// shared state of a run

pub struct Shared {
    pub clock: AtomicU64,
    pub keys: Vec<String>,
    pub ctl: Arc<KvCtl>,
    pub connect_ordinal: AtomicU32,
    pub shutdown_fired: AtomicBool,
    pub shutdown_tx: StdMutex<Option<tokio::sync::oneshot::Sender<()>>>,
    pub shutdown_stamp: AtomicU64,
    pub shutdown_time: AtomicU64,
    pub server_done: AtomicBool,
    pub server_done_time: AtomicU64,
    pub alive_at_return: AtomicU32,
    /// number of connections with a reply received and not yet ended by the client (C15)
    pub held: AtomicU32,
    pub max_held: AtomicU32,
    /// client ends of connections that the server has ended and whose clients never close them
    pub lingering: StdMutex<Vec<Box<dyn std::any::Any + Send>>>,
}

impl Shared {
    pub fn stamp(&self) -> u64 {
        self.clock.fetch_add(1, Ordering::SeqCst)
    }
    pub fn fire_shutdown(&self) {
        if let Some(tx) = self.shutdown_tx.lock().unwrap().take() {
            self.shutdown_stamp.store(self.stamp(), Ordering::SeqCst);
            self.shutdown_time.store(simrt::sched::now_ns(), Ordering::SeqCst);
            self.shutdown_fired.store(true, Ordering::SeqCst);
            let _ = tx.send(());
            if let Some((sim, _)) = simrt::current() {
                sim.note_progress();
            }
        }
    }
}

// ---------------------------------------------------------------------------------------------
// scripted client

#[derive(Clone, Debug)]
pub struct ReqRec {
    pub req: Req,
    pub queued_end: u64,
    pub inv: Option<u64>,
    pub reply: Option<Reply>,
    pub ret: Option<u64>,
}

pub struct Cli {
    pub idx: usize,
    pub ep: Option<Endpoint>,
    pub ordinal: u32,
    out: VecDeque<u8>,
    queued_total: u64,
    sent_total: u64,
    inb: Vec<u8>,
    pub received: Vec<u8>,
    pub reqs: Vec<ReqRec>,
    pub replies: usize,
    pub extra_replies: Vec<Reply>,
    pub eof: bool,
    pub reset: bool,
    pub write_err: bool,
    pub malformed: Option<String>,
    pub connect_err: Option<String>,
    pub half_closed: bool,
    pub first_reply_seen: bool,
    pub ended_by_client: bool,
    pub eof_time: Option<u64>,
    chunk_mode: u8,
    chunk_n: usize,
    chunk_pause_us: u64,
    /// simulated time at which a bounded wait gives up
    deadline: Option<u64>,
    rng: Rng,
    sh: Arc<Shared>,
}

pub fn encode_req(keys: &[String], r: &Req) -> Vec<u8> {
    match r {
        Req::Set(k, v) => resp::cmd(&[b"SET", keys[*k].as_bytes(), &v.bytes()]),
        Req::Get(k) => resp::cmd(&[b"GET", keys[*k].as_bytes()]),
        Req::Del(ks) => {
            let mut parts: Vec<&[u8]> = vec![b"DEL"];
            for k in ks {
                parts.push(keys[*k].as_bytes());
            }
            resp::cmd(&parts)
        }
    }
}

impl Cli {
    pub fn new(idx: usize, script: &ClientScript, sh: Arc<Shared>, seed: u64) -> Cli {
        Cli {
            idx,
            ep: None,
            ordinal: 0,
            out: VecDeque::new(),
            queued_total: 0,
            sent_total: 0,
            inb: Vec::new(),
            received: Vec::new(),
            reqs: Vec::new(),
            replies: 0,
            extra_replies: Vec::new(),
            eof: false,
            reset: false,
            write_err: false,
            malformed: None,
            connect_err: None,
            half_closed: false,
            first_reply_seen: false,
            ended_by_client: false,
            eof_time: None,
            chunk_mode: script.chunk_mode,
            chunk_n: script.chunk_n.max(1),
            chunk_pause_us: script.chunk_pause_us,
            deadline: None,
            rng: Rng::new(mix(seed, 0xC11E47 + idx as u64)),
            sh,
        }
    }

    pub fn connect(&mut self) {
        match simrt::net::connect_blocking(PORT) {
            Ok(ep) => {
                self.ordinal = self.sh.connect_ordinal.fetch_add(1, Ordering::SeqCst) + 1;
                self.ep = Some(ep);
            }
            Err(e) => self.connect_err = Some(format!("{}", e)),
        }
    }

    fn dead(&self) -> bool {
        self.ep.is_none() || self.reset || (self.eof && (self.out.is_empty() || self.write_err))
    }

    pub fn queue_req(&mut self, r: &Req) {
        let bytes = encode_req(&self.sh.keys, r);
        self.queued_total += bytes.len() as u64;
        self.out.extend(bytes);
        self.reqs.push(ReqRec { req: r.clone(), queued_end: self.queued_total, inv: None, reply: None, ret: None });
    }

    pub fn queue_raw(&mut self, b: &[u8]) {
        self.queued_total += b.len() as u64;
        self.out.extend(b.iter().copied());
    }

    pub fn unanswered(&self) -> usize {
        self.reqs.len() - self.replies.min(self.reqs.len())
    }

    fn parse_inbuf(&mut self) {
        loop {
            if self.inb.is_empty() || self.malformed.is_some() {
                return;
            }
            match resp::parse(&self.inb) {
                resp::Parse::Done(r, n) => {
                    self.inb.drain(..n);
                    let is_error = matches!(r, resp::Reply::Error(_));
                    let stamp = self.sh.stamp();
                    if self.replies < self.reqs.len() {
                        let rec = &mut self.reqs[self.replies];
                        rec.reply = Some(r);
                        rec.ret = Some(stamp);
                    } else {
                        self.extra_replies.push(r);
                    }
                    self.replies += 1;
                    // "being served" starts with the first reply that is not an error: a server
                    // that turns a connection away with an error reply is not serving it
                    if !self.first_reply_seen && !is_error {
                        self.first_reply_seen = true;
                        if !self.ended_by_client {
                            let h = self.sh.held.fetch_add(1, Ordering::SeqCst) + 1;
                            self.sh.max_held.fetch_max(h, Ordering::SeqCst);
                        }
                    }
                }
                resp::Parse::Incomplete => return,
                resp::Parse::Malformed(e) => {
                    self.malformed = Some(e);
                    return;
                }
            }
        }
    }

    /// the client performs the action that ends the connection from its side
    fn mark_ended(&mut self) {
        if !self.ended_by_client {
            self.ended_by_client = true;
            if self.first_reply_seen {
                self.sh.held.fetch_sub(1, Ordering::SeqCst);
            }
        }
    }

    /// Move bytes in both directions until `until` holds or the connection is dead.
    pub fn pump(&mut self, until: &dyn Fn(&Cli) -> bool) {
        let (sim, me) = simrt::current().expect("client outside sim");
        loop {
            if until(self) {
                return;
            }
            if self.ep.is_none() {
                return;
            }
            let mut progressed = false;
            let mut write_pending = false;
            let mut read_pending = false;
            if !self.out.is_empty() && !self.write_err && !self.half_closed {
                let max = match self.chunk_mode {
                    0 => self.out.len(),
                    1 => 1,
                    _ => 1 + self.rng.usize_below(self.chunk_n),
                };
                let n = max.min(self.out.len());
                let piece: Vec<u8> = self.out.iter().take(n).copied().collect();
                let ep = self.ep.as_ref().unwrap();
                match ep.poll_write(&piece, || Waiter::Thread(me)) {
                    Poll::Ready(Ok(w)) => {
                        self.out.drain(..w);
                        self.sent_total += w as u64;
                        progressed = true;
                        for rec in self.reqs.iter_mut() {
                            if rec.inv.is_none() && rec.queued_end <= self.sent_total {
                                rec.inv = Some(self.sh.stamp());
                            }
                        }
                        if self.chunk_pause_us > 0 && !self.out.is_empty() {
                            sim.sleep_thread(me, self.chunk_pause_us * 1000);
                        }
                    }
                    Poll::Ready(Err(_)) => {
                        self.write_err = true;
                        self.out.clear();
                        progressed = true;
                    }
                    Poll::Pending => write_pending = true,
                }
            }
            if !self.eof && !self.reset {
                let mut buf = [0u8; 4096];
                let ep = self.ep.as_ref().unwrap();
                match ep.poll_read(&mut buf, || Waiter::Thread(me)) {
                    Poll::Ready(Ok(0)) => {
                        self.eof = true;
                        self.eof_time = Some(sim.now_ns());
                        progressed = true;
                        // the server has ended this connection: it is not being served any more
                        self.mark_ended();
                    }
                    Poll::Ready(Ok(n)) => {
                        self.inb.extend_from_slice(&buf[..n]);
                        self.received.extend_from_slice(&buf[..n]);
                        self.parse_inbuf();
                        progressed = true;
                    }
                    Poll::Ready(Err(_)) => {
                        self.reset = true;
                        self.eof_time = Some(sim.now_ns());
                        progressed = true;
                        self.mark_ended();
                    }
                    Poll::Pending => read_pending = true,
                }
            }
            if progressed {
                continue;
            }
            if !write_pending && !read_pending {
                // nothing left that could make progress
                return;
            }
            if let Some(d) = self.deadline {
                if sim.now_ns() >= d {
                    return;
                }
                let key = sim.add_timer(d, simrt::sched::TimerTarget::Thread(me));
                sim.block(me, Why::Net);
                sim.cancel_timer(key);
            } else {
                sim.block(me, Why::Net);
            }
        }
    }

    pub fn run_script(&mut self, script: &ClientScript) {
        let (sim, me) = simrt::current().expect("client outside sim");
        if script.start_us > 0 {
            sim.sleep_thread(me, script.start_us * 1000);
        }
        self.connect();
        if self.ep.is_none() {
            return;
        }
        for step in &script.steps {
            match step {
                CStep::Send(r) => self.queue_req(r),
                CStep::SendCut(r, pm) => {
                    let bytes = encode_req(&self.sh.keys, r);
                    let cut = (1 + (bytes.len().saturating_sub(2) as u64 * (*pm as u64 % 1000) / 1000) as usize).min(bytes.len().saturating_sub(1)).max(1);
                    self.queued_total += cut as u64;
                    self.out.extend(bytes[..cut].iter().copied());
                    self.pump(&|c: &Cli| c.out.is_empty() || c.reset);
                    sim.probe("request_cut_then_earlier_replies_awaited");
                    self.pump(&|c: &Cli| c.unanswered() == 0 || c.eof || c.reset || c.malformed.is_some());
                    self.queued_total += (bytes.len() - cut) as u64;
                    self.out.extend(bytes[cut..].iter().copied());
                    self.reqs.push(ReqRec { req: r.clone(), queued_end: self.queued_total, inv: None, reply: None, ret: None });
                }
                CStep::SendRaw(b) => {
                    // raw bytes are what ends a connection in the slot-accounting scenarios
                    self.mark_ended();
                    self.queue_raw(b)
                }
                CStep::Await(n) => {
                    let n = *n;
                    self.pump(&move |c: &Cli| c.unanswered() <= n || c.eof || c.reset || c.malformed.is_some());
                }
                CStep::Flush => self.pump(&|c: &Cli| c.out.is_empty() || c.reset),
                CStep::Pause(us) => sim.sleep_thread(me, us * 1000),
                CStep::HalfClose => {
                    self.pump(&|c: &Cli| c.out.is_empty() || c.reset);
                    if let Some(ep) = self.ep.as_ref() {
                        ep.shutdown_write();
                    }
                    self.half_closed = true;
                    self.mark_ended();
                }
                CStep::Close => {
                    self.mark_ended();
                    self.ep = None;
                }
                CStep::Reset => {
                    self.mark_ended();
                    if let Some(mut ep) = self.ep.take() {
                        ep.reset();
                    }
                }
                CStep::CloseUnlessEnded => {
                    self.mark_ended();
                    if self.eof || self.reset {
                        if let Some(ep) = self.ep.take() {
                            sim.probe("client_leaves_socket_open_after_server_ended_the_connection");
                            self.sh.lingering.lock().unwrap().push(Box::new(ep));
                        }
                    }
                    self.ep = None;
                }
                CStep::ReadToEof => self.pump(&|c: &Cli| c.eof || c.reset),
                CStep::ReadFor(us) => {
                    self.deadline = Some(sim.now_ns() + us * 1000);
                    self.pump(&|c: &Cli| c.eof || c.reset);
                    self.deadline = None;
                }
                CStep::ArmPanic => {
                    self.mark_ended();
                    self.sh.ctl.panic_conns.lock().unwrap().insert(self.ordinal);
                }
                CStep::ArmStoreError => {
                    self.mark_ended();
                    self.sh.ctl.fail_conns.lock().unwrap().insert(self.ordinal);
                }
                CStep::Dribble { total_us, gap_us } => {
                    self.mark_ended();
                    sim.probe("client_keeps_sending_after_the_signal");
                    let until = sim.now_ns() + total_us * 1000;
                    // an endless bulk string: never a complete request, never malformed
                    self.queue_raw(b"*3\r\n$3\r\nSET\r\n$1\r\nk\r\n$100000000\r\n");
                    while sim.now_ns() < until && !self.eof && !self.reset {
                        self.queue_raw(b"xxxxxxxx");
                        self.deadline = Some(sim.now_ns() + gap_us * 1000);
                        self.pump(&|c: &Cli| c.eof || c.reset);
                        self.deadline = None;
                    }
                }
                CStep::WaitShutdown => {
                    // fire it: the client that reaches this step pulls the trigger, so the
                    // signal lands at a scripted point of this connection's life
                    self.sh.fire_shutdown();
                }
            }
            if self.ep.is_none() {
                break;
            }
        }
        // whatever the script did, a script that ends closes the connection
        self.mark_ended();
    }
}

// ---------------------------------------------------------------------------------------------
// server

pub struct Srv {
    pub rt: tokio::runtime::Runtime,
    pub join: Option<tokio::task::JoinHandle<()>>,
    pub sh: Arc<Shared>,
    pub bind_error: Arc<StdMutex<Option<String>>>,
}

pub fn net_cfg(p: &NetParams) -> NetCfg {
    NetCfg {
        capacity: p.capacity.max(16),
        max_delay_ns: p.max_delay_us * 1000,
        read_mode: match p.read_mode {
            0 => ReadMode::OneByte,
            1 => ReadMode::Mss(p.mss.max(1)),
            2 => ReadMode::All,
            _ => ReadMode::Random,
        },
        spurious_pending_per_mille: p.spurious_pm,
        accept_error_per_mille: p.accept_err_pm,
        max_accept_errors_in_row: 2,
        backlog: p.backlog.max(1),
        write_chunk: p.write_chunk,
    }
}

pub fn start_server(ctx: &mut Ctx, scn: &NetScn, h: &bc::Handle) -> Srv {
    simrt::net::configure(ctx.sim, net_cfg(&scn.net));
    let ctl = Arc::new(KvCtl {
        panic_conns: StdMutex::new(Default::default()),
        fail_conns: StdMutex::new(Default::default()),
        conns_created: AtomicU32::new(0),
        panics_fired: AtomicU32::new(0),
        errors_fired: AtomicU32::new(0),
        in_store: AtomicU32::new(0),
        max_in_store: AtomicU32::new(0),
    });
    let (tx, rx) = tokio::sync::oneshot::channel::<()>();
    let sh = Arc::new(Shared {
        clock: AtomicU64::new(1),
        keys: scn.keys.clone(),
        ctl: ctl.clone(),
        connect_ordinal: AtomicU32::new(0),
        shutdown_fired: AtomicBool::new(false),
        shutdown_tx: StdMutex::new(Some(tx)),
        shutdown_stamp: AtomicU64::new(0),
        shutdown_time: AtomicU64::new(0),
        server_done: AtomicBool::new(false),
        server_done_time: AtomicU64::new(0),
        alive_at_return: AtomicU32::new(0),
        held: AtomicU32::new(0),
        max_held: AtomicU32::new(0),
        lingering: StdMutex::new(Vec::new()),
    });
    let rt = tokio::runtime::Builder::new_multi_thread().worker_threads(scn.workers.max(1)).enable_all().build().expect("runtime");
    let kv = Kv { inner: h.clone(), ctl, depth: 0, conn: 0 };
    let mut conf = bitcask::net::Config::default();
    conf.port = PORT;
    conf.max_connections = scn.max_conn;
    conf.min_backoff_ms = scn.min_backoff_ms;
    conf.max_backoff_ms = scn.max_backoff_ms;
    let sh2 = sh.clone();
    let bind_error = Arc::new(StdMutex::new(None));
    let be = bind_error.clone();
    let join = rt.spawn(async move {
        let shutdown = async move {
            let _ = rx.await;
        };
        match conf.async_server(kv, shutdown).await {
            Ok(server) => server.run().await,
            Err(e) => *be.lock().unwrap() = Some(format!("{}", e)),
        }
        // connection tasks still alive at the instant run() returns (this task is one)
        let alive = simrt::exec::current_rt().map(|rt| rt.alive_tasks()).unwrap_or(1);
        sh2.alive_at_return.store(alive.saturating_sub(1) as u32, Ordering::SeqCst);
        sh2.server_done_time.store(simrt::sched::now_ns(), Ordering::SeqCst);
        sh2.server_done.store(true, Ordering::SeqCst);
    });
    // wait until the listener is bound (no simulated time passes)
    for _ in 0..100 {
        if simrt::net::listener_exists(PORT) || bind_error.lock().unwrap().is_some() {
            break;
        }
        ctx.settle();
    }
    Srv { rt, join: Some(join), sh, bind_error }
}

pub struct NetRun {
    pub clients: Vec<Cli>,
    pub store: store::Store,
    pub srv: Srv,
    pub rel: String,
    pub server_returned: bool,
}

/// Common body: open store, start server, run the scripted clients (and optional merge thread
/// and timed shutdown), wait for everything, return the observations.
pub fn run_net(ctx: &mut Ctx, scn: &NetScn, seed: u64, fire_shutdown_at_end: bool) -> Option<NetRun> {
    let rel = ctx.new_dir("s");
    let store = match store::open_store(ctx, &rel, &scn.cfg) {
        Ok(s) => s,
        Err(e) => {
            ctx.viol("open-failed", format!("initial open failed: {}", e), "");
            return None;
        }
    };
    let srv = start_server(ctx, scn, &store.h);
    if let Some(e) = srv.bind_error.lock().unwrap().clone() {
        ctx.viol("server-start-failed", format!("the server could not start: {}", e), "");
        return None;
    }
    let mut joins = Vec::new();
    for (i, script) in scn.clients.iter().enumerate() {
        let sh = srv.sh.clone();
        let script = script.clone();
        joins.push(simrt::spawn(&format!("client-{}", i), simrt::sched::DEFAULT_STACK, move || {
            let mut c = Cli::new(i, &script, sh, seed);
            c.run_script(&script);
            // closing happens when the endpoint is dropped: keep the observations
            let ep = c.ep.take();
            drop(ep);
            c
        }));
    }
    let mut merge_join = None;
    if scn.merges > 0 {
        let h = store.h.clone();
        let n = scn.merges;
        merge_join = Some(simrt::spawn("merger", simrt::sched::DEFAULT_STACK, move || {
            let mut errs = Vec::new();
            for _ in 0..n {
                if let Err(e) = store::merge(&h) {
                    errs.push(e);
                }
                let (sim, me) = simrt::current().unwrap();
                sim.sleep_thread(me, 50_000);
            }
            errs
        }));
    }
    let mut trigger = None;
    if let Some(us) = scn.shutdown_us {
        let sh = srv.sh.clone();
        trigger = Some(simrt::spawn("shutdown-trigger", simrt::sched::DEFAULT_STACK, move || {
            let (sim, me) = simrt::current().unwrap();
            sim.sleep_thread(me, us * 1000);
            sh.fire_shutdown();
        }));
    }
    let mut clients = Vec::new();
    for j in joins {
        match j.join() {
            Ok(c) => clients.push(c),
            Err(_) => ctx.viol("harness-client-panicked", "a scripted client panicked".into(), ""),
        }
    }
    if let Some(m) = merge_join {
        if let Ok(errs) = m.join() {
            if let Some(e) = errs.first() {
                ctx.viol("merge-failed", format!("a merge during the run returned {}", e), "");
            }
        }
    }
    if let Some(t) = trigger {
        let _ = t.join();
    }
    let server_returned = srv.sh.server_done.load(Ordering::SeqCst);
    let mut run = NetRun { clients, store, srv, rel, server_returned };
    if fire_shutdown_at_end {
        run.srv.sh.fire_shutdown();
        // bounded liveness: run() must return within 60 simulated seconds once everything drained
        wait_server(ctx, &mut run);
    }
    Some(run)
}

pub fn finish_net(ctx: &mut Ctx, run: NetRun) {
    let NetRun { clients, store, srv, rel, .. } = run;
    drop(clients);
    drop(srv);
    drop(store);
    ctx.join_others();
    store::remove_dir(ctx, &rel);
}

pub fn final_scan(ctx: &mut Ctx, run: &NetRun, keys: &[String]) -> Option<Model> {
    let kb: Vec<Vec<u8>> = keys.iter().map(|k| k.as_bytes().to_vec()).collect();
    match store::scan_all(&run.store.h, &kb) {
        Ok(m) => Some(m),
        Err(e) => {
            ctx.viol("op-failed", format!("final scan through a handle: {}", e), "");
            None
        }
    }
}

fn expect_reply(model: &mut Model, keys: &[String], r: &Req) -> Reply {
    match r {
        Req::Set(k, v) => {
            model.insert(keys[*k].as_bytes().to_vec(), v.bytes());
            Reply::Simple("OK".into())
        }
        Req::Get(k) => match model.get(keys[*k].as_bytes()) {
            Some(v) => Reply::Bulk(v.clone()),
            None => Reply::Null,
        },
        Req::Del(ks) => {
            let mut n = 0;
            for k in ks {
                if model.remove(keys[*k].as_bytes()).is_some() {
                    n += 1;
                }
            }
            Reply::Int(n)
        }
    }
}

// =============================================================================================
// C06: one connection, sequential model

pub fn run_c06(ctx: &mut Ctx, scn: &NetScn, seed: u64) {
    let mut run = match run_net(ctx, scn, seed, false) {
        Some(r) => r,
        None => return,
    };
    let mut model = Model::new();
    for c in &run.clients {
        if let Some(e) = &c.connect_err {
            ctx.viol("connect-failed", format!("client {} could not connect: {}", c.idx, e), "");
        }
        if let Some(m) = &c.malformed {
            ctx.viol("malformed-reply", format!("client {} received bytes that are not a RESP reply: {}", c.idx, m), "");
        }
        for (i, rec) in c.reqs.iter().enumerate() {
            let want = expect_reply(&mut model, &scn.keys, &rec.req);
            match &rec.reply {
                Some(got) if *got == want => {}
                Some(got) => {
                    ctx.viol("wrong-reply", format!("request #{} {:?} was answered {} but the model says {}", i, short_req(&scn.keys, &rec.req), resp::show(got), resp::show(&want)), "");
                    break;
                }
                None => {
                    ctx.viol("missing-reply", format!("request #{} {:?} got no reply ({} of {} answered; eof={} reset={})", i, short_req(&scn.keys, &rec.req), c.replies, c.reqs.len(), c.eof, c.reset), "");
                    break;
                }
            }
        }
        if !c.extra_replies.is_empty() {
            ctx.viol("extra-reply", format!("client {} received {} replies more than it sent requests, first: {}", c.idx, c.extra_replies.len(), resp::show(&c.extra_replies[0])), "");
        }
        ctx.observe_bytes(&c.received);
    }
    // in a share of runs the repository's own Client then talks to the same server over a
    // second connection (same segmentation and timing model), continuing the same model
    if ctx.out.violations.is_empty() && mix(seed, 0xC11E) % 3 == 0 {
        ctx.sim.probe("real_client_exchange");
        let mut r = Rng::new(mix(seed, 0x5EA1));
        let nops = 1 + r.usize_below(8);
        let mut ops = Vec::new();
        for j in 0..nops {
            let k = r.usize_below(scn.keys.len());
            ops.push(match r.below(3) {
                0 => Req::Set(k, Val { tag: 700_000 + j as u32, len: *r.pick(&[0, 1, 9, 300, 8200]) }),
                1 => Req::Get(k),
                _ => Req::Del((0..1 + r.usize_below(3)).map(|_| r.usize_below(scn.keys.len())).collect()),
            });
        }
        let keys = scn.keys.clone();
        let ops2 = ops.clone();
        let results: Result<Vec<Reply>, String> = run.srv.rt.block_on(async move {
            let mut c = bitcask::net::Client::connect(format!("127.0.0.1:{}", PORT)).await.map_err(|e| format!("connect: {}", e))?;
            let mut out = Vec::new();
            for op in &ops2 {
                match op {
                    Req::Set(k, v) => {
                        c.set(keys[*k].clone(), Bytes::from(v.bytes())).await.map_err(|e| format!("set: {}", e))?;
                        out.push(Reply::Simple("OK".into()));
                    }
                    Req::Get(k) => match c.get(keys[*k].clone()).await.map_err(|e| format!("get: {}", e))? {
                        Some(b) => out.push(Reply::Bulk(b.to_vec())),
                        None => out.push(Reply::Null),
                    },
                    Req::Del(ks) => {
                        let n = c.del(ks.iter().map(|k| keys[*k].clone()).collect()).await.map_err(|e| format!("del: {}", e))?;
                        out.push(Reply::Int(n));
                    }
                }
            }
            Ok(out)
        });
        match results {
            Ok(rs) => {
                for (i, (op, got)) in ops.iter().zip(rs.iter()).enumerate() {
                    let want = expect_reply(&mut model, &scn.keys, op);
                    if *got != want {
                        ctx.viol("wrong-reply", format!("the repository's Client: operation #{} {} returned {} but the model says {}", i, short_req(&scn.keys, op), resp::show(got), resp::show(&want)), "");
                        break;
                    }
                }
            }
            Err(e) => ctx.viol("client-failed", format!("the repository's Client failed against the server: {}", e), ""),
        }
    }
    if ctx.out.violations.is_empty() {
        if let Some(m) = final_scan(ctx, &run, &scn.keys) {
            if let Some(d) = store::diff_models(&m, &model) {
                ctx.viol("final-mismatch", format!("after the exchange the store differs from the model (store vs model): {}", d), "");
            }
        }
    }
    run.srv.sh.fire_shutdown();
    wait_server(ctx, &mut run);
    if !run.server_returned && ctx.out.violations.is_empty() {
        ctx.viol("server-did-not-stop", "Server::run did not return within 60 simulated seconds after the shutdown signal although every client had finished".into(), "");
    }
    let n: usize = run.clients.iter().map(|c| c.reqs.len()).sum();
    ctx.sig(mix(scn.net.read_mode as u64, mix(scn.clients.get(0).map(|c| c.chunk_mode as u64).unwrap_or(0), mix((n as u64).min(8), (scn.net.capacity < 1024) as u64))));
    ctx.out.nontrivial = n > 0;
    finish_net(ctx, run);
}

pub fn short_req(keys: &[String], r: &Req) -> String {
    match r {
        Req::Set(k, v) => format!("SET {} <{}B>", hex(keys[*k].as_bytes()), v.len),
        Req::Get(k) => format!("GET {}", hex(keys[*k].as_bytes())),
        Req::Del(ks) => format!("DEL {}", ks.iter().map(|k| hex(keys[*k].as_bytes())).collect::<Vec<_>>().join(" ")),
    }
}

// =============================================================================================
// C11: several connections, linearizability per key

pub fn run_c11(ctx: &mut Ctx, scn: &NetScn, seed: u64) {
    use crate::lin::{self, LOp};
    let run = match run_net(ctx, scn, seed, true) {
        Some(r) => r,
        None => return,
    };
    let nkeys = scn.keys.len();
    let mut per_key: Vec<Vec<(LOp, Option<Vec<u8>>)>> = vec![Vec::new(); nkeys];
    let mut ids: BTreeMap<Vec<u8>, u32> = BTreeMap::new();
    let mut id_of = |v: &Vec<u8>, ids: &mut BTreeMap<Vec<u8>, u32>| -> u32 {
        let n = ids.len() as u32 + 1;
        *ids.entry(v.clone()).or_insert(n)
    };
    for c in &run.clients {
        if let Some(e) = &c.connect_err {
            ctx.viol("connect-failed", format!("client {} could not connect: {}", c.idx, e), "");
        }
        if let Some(m) = &c.malformed {
            ctx.viol("malformed-reply", format!("client {} received bytes that are not a RESP reply: {}", c.idx, m), "");
        }
        if c.eof || c.reset {
            // the server closed a well-behaved connection
            if c.replies < c.reqs.len() {
                ctx.viol("connection-closed-by-server", format!("client {}: the server closed the connection after {} of {} requests (eof={} reset={})", c.idx, c.replies, c.reqs.len(), c.eof, c.reset), "");
            }
        }
        for (i, rec) in c.reqs.iter().enumerate() {
            let (inv, ret, reply) = match (rec.inv, rec.ret, &rec.reply) {
                (Some(a), Some(b), Some(r)) => (a, b, r),
                _ => {
                    if ctx.out.violations.is_empty() {
                        ctx.viol("missing-reply", format!("client {} request #{} {} got no reply", c.idx, i, short_req(&scn.keys, &rec.req)), "");
                    }
                    continue;
                }
            };
            let (k, kind) = match (&rec.req, reply) {
                (Req::Set(k, v), Reply::Simple(s)) if s == "OK" => (*k, lin::Kind::Write(id_of(&v.bytes(), &mut ids))),
                (Req::Get(k), Reply::Bulk(b)) => (*k, lin::Kind::Read(Some(id_of(b, &mut ids)))),
                (Req::Get(k), Reply::Null) => (*k, lin::Kind::Read(None)),
                (Req::Del(ks), Reply::Int(n)) if ks.len() == 1 && (*n == 0 || *n == 1) => (ks[0], lin::Kind::Del(*n == 1)),
                (r, got) => {
                    ctx.viol("wrong-reply", format!("client {} request #{} {} was answered {}", c.idx, i, short_req(&scn.keys, r), resp::show(got)), "");
                    continue;
                }
            };
            per_key[k].push((LOp { inv, ret, kind, who: format!("c{}#{} {} -> {}", c.idx, i, short_req(&scn.keys, &rec.req), resp::show(reply)), proc_seq: Some((c.idx as u32, i as u32)) }, None));
        }
        if !c.extra_replies.is_empty() {
            ctx.viol("extra-reply", format!("client {} received more replies than requests", c.idx), "");
        }
    }
    // final state joins each key's history as a read
    if ctx.out.violations.is_empty() {
        if let Some(m) = final_scan(ctx, &run, &scn.keys) {
            for (k, key) in scn.keys.iter().enumerate() {
                let v = m.get(key.as_bytes());
                let s = run.srv.sh.stamp();
                let kind = lin::Kind::Read(v.map(|v| id_of(v, &mut ids)));
                per_key[k].push((LOp { inv: s, ret: run.srv.sh.stamp(), kind, who: format!("final read -> {}", store::hexo(&v.cloned())), proc_seq: None }, None));
            }
        }
    }
    if ctx.out.violations.is_empty() {
        for (k, ops) in per_key.iter().enumerate() {
            let mut lops: Vec<LOp> = ops.iter().map(|(o, _)| o.clone()).collect();
            if lops.len() > 60 {
                lops.truncate(60);
            }
            if !lin::linearizable(&lops, None) {
                lops.sort_by_key(|o| o.inv);
                let h: Vec<String> = lops.iter().map(|o| format!("[{}..{}] {}", o.inv, o.ret, o.who)).collect();
                ctx.viol("not-linearizable", format!("the replies concerning key {} have no linearization: {}", hex(scn.keys[k].as_bytes()), h.join("; ")), "");
                break;
            }
        }
    }
    // all keys together: each connection's own order relates operations on different keys, which
    // the key-by-key search cannot see (bounded search; inconclusive beyond the bound)
    if ctx.out.violations.is_empty() {
        let all: Vec<(usize, LOp)> = per_key.iter().enumerate().flat_map(|(k, ops)| ops.iter().map(move |(o, _)| (k, o.clone()))).collect();
        if all.len() <= 60 {
            match lin::linearizable_all_keys(&all, per_key.len(), 300_000) {
                Some(false) => {
                    let mut v = all.clone();
                    v.sort_by_key(|(_, o)| o.inv);
                    let h: Vec<String> = v.iter().map(|(_, o)| format!("[{}..{}] {}", o.inv, o.ret, o.who)).collect();
                    ctx.viol("not-linearizable", format!("every key's replies alone have a linearization, but all keys together (real time and each connection's own order) have none: {}", h.join("; ")), "");
                }
                Some(true) => ctx.sim.probe("all_keys_linearization_found"),
                None => ctx.sim.probe("all_keys_search_inconclusive"),
            }
        }
    }
    if !run.server_returned && ctx.out.violations.is_empty() {
        ctx.viol("server-did-not-stop", "Server::run did not return within 60 simulated seconds after the shutdown signal".into(), "");
    }
    for c in &run.clients {
        ctx.observe_bytes(&c.received);
    }
    let st = ctx.sim.stats();
    ctx.sig(st.trace_hash);
    ctx.out.nontrivial = run.srv.sh.ctl.max_in_store.load(Ordering::SeqCst) >= 1;
    finish_net(ctx, run);
}

// =============================================================================================
// C10: hostile input harms only the connection that sent it

/// keys are partitioned: client i owns the keys with index % nclients == i
fn client_keys(scn: &NetScn, i: usize) -> Vec<usize> {
    (0..scn.keys.len()).filter(|k| k % scn.clients.len() == i).collect()
}

/// Is the store's content for the keys of client `c` equal to the model after some prefix of
/// its requests of length in [lo, hi]?
fn prefix_consistent(scn: &NetScn, c: &Cli, scan: &Model, lo: usize, hi: usize) -> bool {
    let mine: Vec<Vec<u8>> = client_keys(scn, c.idx).iter().map(|k| scn.keys[*k].as_bytes().to_vec()).collect();
    let mut model = Model::new();
    let restricted = |m: &Model| -> Model { m.iter().filter(|(k, _)| mine.contains(k)).map(|(k, v)| (k.clone(), v.clone())).collect() };
    let have = restricted(scan);
    if lo == 0 && restricted(&model) == have {
        return true;
    }
    for (j, rec) in c.reqs.iter().enumerate() {
        let _ = expect_reply(&mut model, &scn.keys, &rec.req);
        let applied = j + 1;
        if applied >= lo && applied <= hi && restricted(&model) == have {
            return true;
        }
        if applied > hi {
            break;
        }
    }
    false
}

fn check_replies_sequential(ctx: &mut Ctx, scn: &NetScn, c: &Cli, what: &str) {
    let mut model = Model::new();
    for (i, rec) in c.reqs.iter().enumerate() {
        let want = expect_reply(&mut model, &scn.keys, &rec.req);
        match &rec.reply {
            Some(got) if *got == want => {}
            Some(got) => {
                ctx.viol("wrong-reply", format!("{} client {} request #{} {} was answered {} but the model says {}", what, c.idx, i, short_req(&scn.keys, &rec.req), resp::show(got), resp::show(&want)), "");
                return;
            }
            None => return,
        }
    }
}

pub fn run_c10(ctx: &mut Ctx, scn: &NetScn, seed: u64) {
    let run = match run_net(ctx, scn, seed, false) {
        Some(r) => r,
        None => return,
    };
    // a fresh control connection at the very end must still be served
    let fresh_ok = {
        let sh = run.srv.sh.clone();
        let keys = scn.keys.clone();
        let j = simrt::spawn("fresh-control", simrt::sched::DEFAULT_STACK, move || {
            let script = ClientScript { start_us: 0, chunk_mode: 0, chunk_n: 1, chunk_pause_us: 0, hostile: false, steps: vec![] };
            let mut c = Cli::new(999, &script, sh, 1);
            c.connect();
            if c.ep.is_none() {
                return (false, format!("connect failed: {:?}", c.connect_err));
            }
            let _ = keys;
            c.queue_req(&Req::Get(0));
            c.pump(&|c: &Cli| c.unanswered() == 0 || c.eof || c.reset || c.malformed.is_some());
            let ok = c.replies == 1 && c.malformed.is_none();
            (ok, format!("replies={} eof={} reset={} malformed={:?}", c.replies, c.eof, c.reset, c.malformed))
        });
        j.join().unwrap_or((false, "fresh client panicked".into()))
    };
    if !fresh_ok.0 {
        ctx.viol("server-stopped-serving", format!("a fresh connection opened after the hostile traffic was not served ({})", fresh_ok.1), "");
    }
    if run.srv.sh.server_done.load(Ordering::SeqCst) {
        ctx.viol("server-stopped-serving", "Server::run returned although no shutdown was requested".into(), "");
    }
    let scan = final_scan(ctx, &run, &scn.keys);
    for (c, script) in run.clients.iter().zip(scn.clients.iter()) {
        if script.hostile {
            // replies it did get must be right, and its effect is a prefix of its well-formed prefix
            check_replies_sequential(ctx, scn, c, "hostile");
            if let Some(scan) = &scan {
                let fully_sent = c.reqs.iter().filter(|r| r.inv.is_some()).count();
                if !prefix_consistent(scn, c, scan, c.replies.min(c.reqs.len()), fully_sent) {
                    ctx.viol("store-changed-by-malformed-input", format!("the keys of hostile connection {} do not hold the effect of any prefix (length {}..={}) of its well-formed commands", c.idx, c.replies, fully_sent), "");
                }
            }
            if c.eof || c.reset {
                ctx.sim.probe("hostile_connection_closed_by_server");
            }
        } else {
            if let Some(e) = &c.connect_err {
                ctx.viol("control-connection-harmed", format!("control client {} could not connect: {}", c.idx, e), "");
            }
            if c.malformed.is_some() || ((c.eof || c.reset) && c.replies < c.reqs.len()) || c.replies < c.reqs.len() {
                ctx.viol("control-connection-harmed", format!("control client {} got {} of {} replies (eof={} reset={} malformed={:?})", c.idx, c.replies, c.reqs.len(), c.eof, c.reset, c.malformed), "");
            }
            check_replies_sequential(ctx, scn, c, "control");
            if let Some(scan) = &scan {
                if !prefix_consistent(scn, c, scan, c.reqs.len(), c.reqs.len()) {
                    ctx.viol("control-connection-harmed", format!("the keys of control connection {} do not hold the effect of its commands", c.idx), "");
                }
            }
        }
        ctx.observe_bytes(&c.received);
    }
    // no key outside the scenario's key space exists
    let d = run.store.h.verif_dump();
    for e in &d.index {
        if !scn.keys.iter().any(|k| k.as_bytes() == &e.key[..]) {
            ctx.viol("store-changed-by-malformed-input", format!("the store holds key {} which no well-formed command wrote", hex(&e.key)), "");
            break;
        }
    }
    let st = ctx.sim.stats();
    ctx.sig(mix(scn.clients.iter().filter(|c| c.hostile).count() as u64, st.trace_hash));
    ctx.out.nontrivial = true;
    // now stop the server
    let mut run = run;
    run.srv.sh.fire_shutdown();
    wait_server(ctx, &mut run);
    finish_net(ctx, run);
}

/// Give the server simulated time (in growing steps, up to 60 s) to return from `run()`.
pub fn wait_server(ctx: &mut Ctx, run: &mut NetRun) -> bool {
    for d in [0u64, 1_000_000, 10_000_000, 100_000_000, 1_000_000_000, 10_000_000_000, 60_000_000_000] {
        let limit = ctx.sim.now_ns() + d;
        ctx.sim.wait_quiescent(ctx.me, limit);
        if run.srv.sh.server_done.load(Ordering::SeqCst) {
            if let Some(j) = run.srv.join.take() {
                let _ = run.srv.rt.block_on(j);
            }
            run.server_returned = true;
            return true;
        }
    }
    false
}

// =============================================================================================
// C15: connection limit and slot accounting

pub fn run_c15(ctx: &mut Ctx, scn: &NetScn, seed: u64) {
    let rel = ctx.new_dir("s");
    let store = match store::open_store(ctx, &rel, &scn.cfg) {
        Ok(s) => s,
        Err(e) => {
            ctx.viol("open-failed", format!("initial open failed: {}", e), "");
            return;
        }
    };
    let srv = start_server(ctx, scn, &store.h);
    let m = scn.max_conn as u32;
    let finished = Arc::new(AtomicU32::new(0));
    let waiting: Arc<StdMutex<BTreeMap<usize, bool>>> = Arc::new(StdMutex::new(BTreeMap::new()));
    let mut joins = Vec::new();
    for (i, script) in scn.clients.iter().enumerate() {
        let sh = srv.sh.clone();
        let script = script.clone();
        let finished = finished.clone();
        joins.push(simrt::spawn(&format!("client-{}", i), simrt::sched::DEFAULT_STACK, move || {
            let mut c = Cli::new(i, &script, sh, seed);
            c.run_script(&script);
            let ep = c.ep.take();
            drop(ep);
            finished.fetch_add(1, Ordering::SeqCst);
            c
        }));
    }
    let _ = waiting;
    // monitor: at every strongly quiescent point (nothing runnable, no timer pending) a client
    // that is still waiting for its first reply means all slots must be definitely held
    let n = scn.clients.len() as u32;
    let mut rounds = 0;
    while finished.load(Ordering::SeqCst) < n && rounds < 10_000 {
        rounds += 1;
        ctx.sim.wait_quiescent(ctx.me, u64::MAX);
        if finished.load(Ordering::SeqCst) >= n {
            break;
        }
        // quiescent with clients alive: they all wait for the network. Nobody can make progress
        // any more, so either slots are all held by clients that wait (impossible by script
        // design) or a slot has leaked.
        let held = srv.sh.held.load(Ordering::SeqCst);
        ctx.viol(
            "slot-leaked-or-withheld",
            format!("the simulation is quiescent (nothing runnable, no timer pending) while {} clients still wait to be served and only {} of {} slots are held by live connections", n - finished.load(Ordering::SeqCst), held, m),
            "",
        );
        break;
    }
    let mut clients = Vec::new();
    if ctx.out.violations.is_empty() {
        for j in joins {
            if let Ok(c) = j.join() {
                clients.push(c);
            }
        }
    } else {
        // unblock the stuck clients: a stopping server closes every connection and the listener
        srv.sh.fire_shutdown();
        for j in joins {
            if let Ok(c) = j.join() {
                clients.push(c);
            }
        }
    }
    // (i) never more than M definitely held
    let max_held = srv.sh.max_held.load(Ordering::SeqCst);
    if max_held > m {
        ctx.viol("limit-exceeded", format!("{} connections were being served at the same time (each had received a reply and had not ended yet); the configured maximum is {}", max_held, m), "");
    }
    if max_held == m {
        ctx.sim.probe("limit_reached");
    }
    for c in &clients {
        ctx.observe_bytes(&c.received);
        if c.replies > 0 && (c.eof || c.reset) {
            ctx.sim.probe("served_connection_closed_by_server");
        }
    }
    // (iii) after everything, M fresh clients are all served concurrently
    let served = Arc::new(AtomicU32::new(0));
    let mut fresh = Vec::new();
    for i in 0..m as usize {
        let sh = srv.sh.clone();
        let served = served.clone();
        fresh.push(simrt::spawn(&format!("fresh-{}", i), simrt::sched::DEFAULT_STACK, move || {
            let script = ClientScript { start_us: 0, chunk_mode: 0, chunk_n: 1, chunk_pause_us: 0, hostile: false, steps: vec![] };
            let mut c = Cli::new(500 + i, &script, sh, 7);
            c.connect();
            if c.ep.is_none() {
                return false;
            }
            c.queue_req(&Req::Get(0));
            // a connection that is admitted is answered at once; 30 simulated seconds is forever
            c.deadline = Some(simrt::sched::now_ns() + 30_000_000_000);
            c.pump(&|c: &Cli| c.unanswered() == 0 || c.eof || c.reset);
            c.deadline = None;
            if c.replies != 1 {
                return false;
            }
            served.fetch_add(1, Ordering::SeqCst);
            // hold the connection until everybody has been served (or nothing moves any more)
            let (sim, me) = simrt::current().unwrap();
            let mut waited = 0u64;
            while served.load(Ordering::SeqCst) < m && waited < 200 {
                sim.sleep_thread(me, 100_000_000);
                waited += 1;
            }
            served.load(Ordering::SeqCst) >= m
        }));
    }
    let mut all = true;
    for f in fresh {
        all &= f.join().unwrap_or(false);
    }
    if !all && ctx.out.violations.is_empty() {
        ctx.viol(
            "capacity-reduced",
            format!("after {} connections had come and gone only {} of the configured {} fresh connections could be served at the same time", scn.clients.len(), served.load(Ordering::SeqCst), m),
            "",
        );
    }
    let st = ctx.sim.stats();
    ctx.sig(mix(m as u64, st.trace_hash));
    ctx.out.nontrivial = true;
    let mut run = NetRun { clients, store, srv, rel, server_returned: false };
    run.srv.sh.fire_shutdown();
    wait_server(ctx, &mut run);
    finish_net(ctx, run);
}

// =============================================================================================
// C16: graceful shutdown

pub fn run_c16(ctx: &mut Ctx, scn: &NetScn, seed: u64) {
    let mut run = match run_net(ctx, scn, seed, false) {
        Some(r) => r,
        None => return,
    };
    // the signal was fired by a script step or the timed trigger; if no script reached it, now
    run.srv.sh.fire_shutdown();
    let returned = wait_server(ctx, &mut run);
    let t_sig = run.srv.sh.shutdown_time.load(Ordering::SeqCst);
    if !returned {
        ctx.viol("shutdown-did-not-terminate", "Server::run did not return within 60 simulated seconds after the shutdown signal although every client kept reading until end of stream".into(), "");
    } else {
        let t_done = run.srv.sh.server_done_time.load(Ordering::SeqCst);
        ctx.sim.probe_max("shutdown_latency_us_max", t_done.saturating_sub(t_sig) / 1000);
    }
    let scan = final_scan(ctx, &run, &scn.keys);
    for c in &run.clients {
        if c.connect_err.is_some() {
            continue;
        }
        // (2) complete, correct replies followed by end of stream
        if let Some(m) = &c.malformed {
            ctx.viol("torn-reply", format!("client {} received bytes that are not complete RESP replies: {}", c.idx, m), "");
        }
        // leftover bytes = a partial reply
        let consumed: usize = {
            let mut at = 0usize;
            loop {
                match resp::parse(&c.received[at..]) {
                    resp::Parse::Done(_, n) => at += n,
                    _ => break,
                }
            }
            at
        };
        if consumed != c.received.len() && c.malformed.is_none() {
            ctx.viol("torn-reply", format!("client {} received {} bytes after its last complete reply and then the stream ended (a reply was torn)", c.idx, c.received.len() - consumed), "");
        }
        if !c.extra_replies.is_empty() {
            ctx.viol("extra-reply", format!("client {} received more replies than it sent requests", c.idx), "");
        }
        check_replies_sequential(ctx, scn, c, "");
        // (3) every command whose reply was received is reflected in the store
        if let Some(scan) = &scan {
            let fully_sent = c.reqs.iter().filter(|r| r.inv.is_some()).count();
            if !prefix_consistent(scn, c, scan, c.replies.min(c.reqs.len()), fully_sent) {
                ctx.viol(
                    "acknowledged-command-lost",
                    format!("client {} received {} replies, but its keys do not hold the effect of any prefix (length {}..={}) of its commands", c.idx, c.replies, c.replies, fully_sent),
                    "",
                );
            }
        }
        if c.replies < c.reqs.len() {
            ctx.sim.probe("request_unanswered_at_shutdown");
        }
        ctx.observe_bytes(&c.received);
    }
    // (1b) run() returns only once the connections have wound down
    if returned {
        let n = run.srv.sh.alive_at_return.load(Ordering::SeqCst);
        if n > 0 {
            ctx.viol("returned-before-connections-wound-down", format!("Server::run returned while {} connection task(s) were still alive (a command or reply could still be in progress)", n), "");
        }
    }
    // (4) nothing of the server is left: the port can be bound again
    if returned {
        if simrt::net::listener_exists(PORT) {
            ctx.viol("listener-left-behind", "after Server::run returned the port is still bound".into(), "");
        }
        let alive = run.srv.rt.inner().alive_tasks();
        if alive > 0 {
            ctx.viol("task-left-behind", format!("after Server::run returned {} server tasks are still alive", alive), "");
        }
    }
    let st = ctx.sim.stats();
    ctx.sig(st.trace_hash);
    ctx.out.nontrivial = true;
    finish_net(ctx, run);
}

// =============================================================================================
// C08: Connection encode/decode round trip under arbitrary chunking

use bitcask::net::connection::Connection;
use bitcask::net::frame::Frame;

fn to_frame(f: &FrameSpec) -> Frame {
    match f {
        FrameSpec::Simple(s) => Frame::SimpleString(s.clone()),
        FrameSpec::Error(s) => Frame::Error(s.clone()),
        FrameSpec::Int(i) => Frame::Integer(*i),
        FrameSpec::Bulk(v) => Frame::BulkString(Bytes::from(v.bytes())),
        FrameSpec::BulkRaw(b) => Frame::BulkString(Bytes::from(b.clone())),
        FrameSpec::Null => Frame::Null,
        FrameSpec::Array(a) => Frame::Array(a.iter().map(to_frame).collect()),
    }
}

fn encode_spec(f: &FrameSpec, out: &mut Vec<u8>) {
    match f {
        FrameSpec::Simple(s) => {
            out.push(b'+');
            out.extend_from_slice(s.as_bytes());
            out.extend_from_slice(b"\r\n");
        }
        FrameSpec::Error(s) => {
            out.push(b'-');
            out.extend_from_slice(s.as_bytes());
            out.extend_from_slice(b"\r\n");
        }
        FrameSpec::Int(i) => out.extend_from_slice(format!(":{}\r\n", i).as_bytes()),
        FrameSpec::Bulk(v) => resp::bulk(out, &v.bytes()),
        FrameSpec::BulkRaw(b) => resp::bulk(out, b),
        FrameSpec::Null => out.extend_from_slice(b"$-1\r\n"),
        FrameSpec::Array(a) => {
            out.extend_from_slice(format!("*{}\r\n", a.len()).as_bytes());
            for x in a {
                encode_spec(x, out);
            }
        }
    }
}

#[derive(Debug)]
enum ReadOutcome {
    Frame(String),
    End,
    Error(String),
    Panic(String),
}

pub fn run_c08(ctx: &mut Ctx, scn: &NetScn, _seed: u64) {
    let cs = scn.conn.as_ref().expect("conn scenario");
    simrt::net::configure(ctx.sim, net_cfg(&scn.net));
    let frames: Vec<Frame> = cs.frames.iter().map(to_frame).collect();
    let mut encoded_each: Vec<Vec<u8>> = Vec::new();
    for f in &cs.frames {
        let mut b = Vec::new();
        encode_spec(f, &mut b);
        encoded_each.push(b);
    }
    let all: Vec<u8> = encoded_each.concat();
    let rt = tokio::runtime::Builder::new_multi_thread().worker_threads(scn.workers.max(1)).enable_all().build().expect("runtime");
    // (a) write_frame emits exactly the encoding (in memory, as the repository's own tests do)
    {
        let frames2: Vec<Frame> = cs.frames.iter().map(to_frame).collect();
        let out = rt.block_on(async move {
            let mut cur = std::io::Cursor::new(Vec::new());
            {
                let mut conn = Connection::new(&mut cur);
                for f in &frames2 {
                    if let Err(e) = conn.write_frame(f).await {
                        return Err(format!("{}", e));
                    }
                }
            }
            Ok(cur.into_inner())
        });
        match out {
            Ok(b) if b == all => {}
            Ok(b) => {
                let at = b.iter().zip(all.iter()).position(|(x, y)| x != y).unwrap_or(b.len().min(all.len()));
                ctx.viol("wrong-encoding", format!("write_frame emitted {} bytes that differ from the RESP encoding ({} bytes) at offset {}", b.len(), all.len(), at), "");
            }
            Err(e) => ctx.viol("write-failed", format!("write_frame into memory failed: {}", e), ""),
        }
    }
    let (a, b) = tokio::net::TcpStream::sim_pair();
    let outcomes: Arc<StdMutex<Vec<(ReadOutcome, u64)>>> = Arc::new(StdMutex::new(Vec::new()));
    let clock = Arc::new(AtomicU64::new(1));
    let done = Arc::new(AtomicBool::new(false));
    // reader: the real Connection
    let (o2, c2, d2) = (outcomes.clone(), clock.clone(), done.clone());
    let reader = rt.spawn(async move {
        let mut conn = Connection::new(b);
        loop {
            let r = std::panic::AssertUnwindSafe(conn.read_frame());
            let r = CatchUnwind(Box::pin(r)).await;
            let stamp = c2.fetch_add(1, Ordering::SeqCst);
            match r {
                Ok(Ok(Some(f))) => o2.lock().unwrap().push((ReadOutcome::Frame(format!("{:?}", f)), stamp)),
                Ok(Ok(None)) => {
                    o2.lock().unwrap().push((ReadOutcome::End, stamp));
                    break;
                }
                Ok(Err(e)) => {
                    o2.lock().unwrap().push((ReadOutcome::Error(format!("{}", e)), stamp));
                    break;
                }
                Err(p) => {
                    o2.lock().unwrap().push((ReadOutcome::Panic(p), stamp));
                    break;
                }
            }
        }
        d2.store(true, Ordering::SeqCst);
    });
    let real_writer = cs.cut_before_end.is_none() && cs.stall_at.is_none();
    let mut prefix_problem: Option<String> = None;
    if real_writer {
        // writer: the real Connection over the simulated stream (partial writes, back-pressure)
        ctx.sim.probe("real_writer_over_stream");
        let frames2: Vec<Frame> = cs.frames.iter().map(to_frame).collect();
        let w = rt.spawn(async move {
            let mut conn = Connection::new(a);
            for f in &frames2 {
                if let Err(e) = conn.write_frame(f).await {
                    return Err(format!("{}", e));
                }
            }
            Ok(())
        });
        match rt.block_on(w) {
            Ok(Ok(())) => {}
            Ok(Err(e)) => ctx.viol("write-failed", format!("write_frame over the stream failed: {}", e), ""),
            Err(_) => ctx.viol("write-failed", "the writer task panicked".into(), ""),
        }
    } else {
        // raw writer: the harness feeds the encoding, stalls inside a frame, or cuts the stream
        let ep = a;
        let end = match cs.cut_before_end {
            Some(n) => all.len().saturating_sub(n.max(1)),
            None => all.len(),
        };
        let stall = cs.stall_at.map(|s| s.min(end));
        let mut sent = 0usize;
        let mut write_to = |upto: usize, sent: &mut usize| {
            while *sent < upto {
                match ep.endpoint().write_blocking(&all[*sent..upto]) {
                    Ok(n) => *sent += n,
                    Err(_) => break,
                }
            }
        };
        if let Some(s) = stall {
            write_to(s, &mut sent);
            // let the reader consume everything that arrived; nothing else can happen
            let now_limit = ctx.sim.now_ns() + 1_000_000_000;
            ctx.sim.wait_quiescent(ctx.me, now_limit);
            // how many complete frames lie within the first s bytes?
            let mut acc = 0usize;
            let mut complete = 0usize;
            for e in &encoded_each {
                if acc + e.len() <= s {
                    acc += e.len();
                    complete += 1;
                } else {
                    break;
                }
            }
            let strict_prefix_pending = acc < s;
            let got = outcomes.lock().unwrap().len();
            if strict_prefix_pending {
                ctx.sim.probe("stalled_inside_a_frame");
            }
            if got != complete || done.load(Ordering::SeqCst) {
                prefix_problem = Some(format!(
                    "with the first {} bytes delivered ({} complete frames{}) and the stream still open, read_frame had produced {} results{}",
                    s,
                    complete,
                    if strict_prefix_pending { " and a strict prefix of the next" } else { "" },
                    got,
                    if done.load(Ordering::SeqCst) { " and stopped" } else { "" }
                ));
            }
        }
        write_to(end, &mut sent);
        if cs.cut_before_end.is_some() {
            ctx.sim.probe("stream_cut_inside_a_frame");
        }
        drop(ep);
    }
    // wait for the reader to finish
    let limit = ctx.sim.now_ns() + 60_000_000_000;
    ctx.sim.wait_quiescent(ctx.me, limit);
    let finished = done.load(Ordering::SeqCst);
    if finished {
        let _ = rt.block_on(reader);
    }
    let outs = outcomes.lock().unwrap();
    if let Some(p) = prefix_problem {
        ctx.viol("prefix-not-incomplete", p, "");
    }
    // expected: every frame that is completely inside the delivered bytes, then End or Error
    let delivered = match cs.cut_before_end {
        Some(n) => all.len().saturating_sub(n.max(1)),
        None => all.len(),
    };
    let mut acc = 0usize;
    let mut complete = 0usize;
    for e in &encoded_each {
        if acc + e.len() <= delivered {
            acc += e.len();
            complete += 1;
        } else {
            break;
        }
    }
    let clean_end = acc == delivered;
    if ctx.out.violations.is_empty() {
        if !finished {
            ctx.viol("reader-stuck", format!("read_frame never finished although the stream was closed ({} results so far)", outs.len()), "");
        } else {
            for i in 0..complete {
                match outs.get(i) {
                    Some((ReadOutcome::Frame(s), _)) if *s == format!("{:?}", frames[i]) => {}
                    other => {
                        ctx.viol("wrong-frame", format!("frame #{} was written as {:.120?} but read_frame produced {:.200?}", i, frames[i], other.map(|o| &o.0)), "");
                        break;
                    }
                }
            }
            if ctx.out.violations.is_empty() {
                match (outs.get(complete), clean_end) {
                    (Some((ReadOutcome::End, _)), true) => {}
                    (Some((ReadOutcome::Error(_), _)), false) => {}
                    (other, true) => ctx.viol("wrong-end", format!("after {} frames the stream ended cleanly but read_frame produced {:.200?} instead of a clean end", complete, other.map(|o| &o.0)), ""),
                    (other, false) => ctx.viol("wrong-end", format!("the stream ended inside frame #{} but read_frame produced {:.200?} instead of an error", complete, other.map(|o| &o.0)), ""),
                }
                if outs.len() > complete + 1 {
                    ctx.viol("wrong-end", format!("read_frame produced {} results for {} frames", outs.len(), complete), "");
                }
            }
        }
    }
    for (o, _) in outs.iter() {
        ctx.observe_bytes(format!("{:?}", o).as_bytes());
    }
    drop(outs);
    let classes: u64 = cs.frames.iter().map(|f| match f {
        FrameSpec::Simple(_) => 1,
        FrameSpec::Error(_) => 2,
        FrameSpec::Int(_) => 4,
        FrameSpec::Bulk(_) | FrameSpec::BulkRaw(_) => 8,
        FrameSpec::Null => 16,
        FrameSpec::Array(_) => 32,
    }).fold(0, |a, b| a | b);
    ctx.sig(mix(classes, mix(scn.net.read_mode as u64, mix(cs.cut_before_end.is_some() as u64, mix(cs.stall_at.is_some() as u64, real_writer as u64)))));
    ctx.out.nontrivial = true;
    drop(rt);
    ctx.join_others();
}

/// catch a panic inside a future's poll
struct CatchUnwind<F>(std::pin::Pin<Box<F>>);

impl<F: std::future::Future> std::future::Future for CatchUnwind<std::panic::AssertUnwindSafe<F>> {
    type Output = Result<F::Output, String>;
    fn poll(mut self: std::pin::Pin<&mut Self>, cx: &mut std::task::Context<'_>) -> Poll<Self::Output> {
        let inner = &mut self.0;
        match std::panic::catch_unwind(std::panic::AssertUnwindSafe(|| {
            // SAFETY: projecting through AssertUnwindSafe, which is a transparent wrapper
            let f: std::pin::Pin<&mut F> = unsafe { inner.as_mut().map_unchecked_mut(|a| &mut a.0) };
            f.poll(cx)
        })) {
            Ok(Poll::Ready(v)) => Poll::Ready(Ok(v)),
            Ok(Poll::Pending) => Poll::Pending,
            Err(p) => Poll::Ready(Err(store::panic_msg(&p))),
        }
    }
}
