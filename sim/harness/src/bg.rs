//! C17 (closed store rejects use, worker exits promptly, reopen at once) and C18 (background
//! merge and sync follow the configured policy): the store's own background thread runs on the
//! simulated clock.

use std::collections::BTreeMap;
use std::sync::{Arc, Mutex as StdMutex};

use simrt::fsim::{self, IoOp};
use simrt::rng::mix;

use crate::scn::*;
use crate::store::{self, hex, hexo, Ctx, Model};

fn is_closed_err(e: &str) -> bool {
    e.contains("has been closed")
}

fn bg_threads(ctx: &Ctx) -> Vec<usize> {
    ctx.sim.threads_named("bitcask-backgro")
}

// =============================================================================================
// C18

/// `extra` encodes how the triggers are placed relative to the statistics the workload produced:
///   bits 0..3  : mode (0 dead bytes just crossed, 1 dead bytes exactly equal (not crossed),
///                2 fragmentation just crossed, 3 fragmentation exactly equal, 4 far above,
///                5 far below, 6 as configured)
///   bit  4     : policy never
pub fn run_policy(ctx: &mut Ctx, scn: &StoreScn) {
    let rel = ctx.new_dir("s");
    let keys = &scn.keys;
    // phase 1: produce the write pattern with the background tasks switched off
    let mut quiet = scn.cfg.clone();
    quiet.merge_always = false;
    quiet.sync = SyncCfg::None;
    let s = match store::open_store(ctx, &rel, &quiet) {
        Ok(s) => s,
        Err(e) => {
            ctx.viol("open-failed", format!("initial open failed: {}", e), "");
            return;
        }
    };
    for (i, op) in scn.threads[0].iter().enumerate() {
        let r = match op {
            Op::Set(k, v) => store::set(&s.h, &keys[*k], v.bytes()).map(|_| ()),
            Op::Del(k) => store::del(&s.h, &keys[*k]).map(|_| ()),
            _ => Ok(()),
        };
        if let Err(e) = r {
            ctx.viol("op-failed", format!("op#{} returned {}", i, e), "");
            return;
        }
    }
    let d = s.h.verif_dump();
    drop(s);
    ctx.join_others();
    let max_dead = d.stats.iter().map(|s| s.dead_bytes).max().unwrap_or(0);
    let frag = |dead: u64, live: u64| if dead == 0 { 0.0 } else { dead as f64 / (dead + live) as f64 };
    let max_frag = d.stats.iter().map(|s| frag(s.dead_keys, s.live_keys)).fold(0.0, f64::max);
    // phase 2: place the triggers
    let mut cfg = scn.cfg.clone();
    let mode = scn.extra & 0xf;
    let never = scn.extra & 0x10 != 0;
    cfg.merge_always = !never;
    match mode {
        0 => {
            cfg.trig_dead = max_dead.saturating_sub(1);
            cfg.trig_frag = 1.0;
        }
        1 => {
            cfg.trig_dead = max_dead;
            cfg.trig_frag = 1.0;
        }
        2 => {
            cfg.trig_dead = u64::MAX;
            cfg.trig_frag = (max_frag - 1e-9).max(0.0);
        }
        3 => {
            cfg.trig_dead = u64::MAX;
            cfg.trig_frag = max_frag;
        }
        4 => {
            cfg.trig_dead = 0;
            cfg.trig_frag = 0.0;
        }
        5 => {
            cfg.trig_dead = u64::MAX;
            cfg.trig_frag = 1.0;
        }
        _ => {}
    }
    let t_open = ctx.sim.now_ns();
    let seq_open = store::io_seq(ctx.sim);
    ctx.sim.enable_wait_log();
    let s = match store::open_store(ctx, &rel, &cfg) {
        Ok(s) => s,
        Err(e) => {
            ctx.viol("open-failed", format!("reopen failed: {}", e), "");
            return;
        }
    };
    // the predicate as the statement gives it (strict), from the statistics taken while the
    // store was quiet (after the reopen the worker may already have merged: with jitter 1.0 the
    // first tick can come at once)
    let predicate = !never && d.stats.iter().any(|st| st.dead_bytes > cfg.trig_dead || frag(st.dead_keys, st.live_keys) > cfg.trig_frag);
    let interval_ns = cfg.check_interval_ms * 1_000_000;
    // "plus scheduling slack": what the simulator itself adds, i.e. how late its timers fire
    let late_ns = ctx.sim.cfg.timer_late_max_ns;
    let bound_ns = (interval_ns as f64 * (1.0 + cfg.jitter)).ceil() as u64 + 1_000 + 3 * late_ns;
    // no client action from here on: only let time pass
    let span = 3 * bound_ns + 5_000_000;
    // in half of the runs whose trigger is exceeded the second burst of writes (below) comes
    // RIGHT AFTER the first background merge instead of long after it: the bound of one check
    // interval plus jitter holds just the same for a trigger that is crossed while a merge has
    // only just finished. Time then passes in small steps until that merge is seen.
    let burst_right_after_merge = predicate && ctx.sim.with_stream("c18-burst", |r| r.one_in(2));
    if burst_right_after_merge {
        let step = (bound_ns / 16).max(1_000);
        let mut slept = 0u64;
        while slept < span {
            ctx.sim.sleep_thread(ctx.me, step);
            slept += step;
            let merged = fsim::with_fs(ctx.sim, |fs| fs.log.iter().any(|r| r.seq > seq_open && r.res >= 0 && r.op == IoOp::Create && fs.path_name(r.path).ends_with(".hint")));
            if merged {
                ctx.sim.probe("second_burst_right_after_a_background_merge");
                break;
            }
        }
    } else {
        ctx.sim.sleep_thread(ctx.me, span);
    }
    let t_end = ctx.sim.now_ns();
    // observations
    let (hint_creates, fsyncs, data_creates): (Vec<u64>, Vec<(u64, String)>, Vec<(u64, String)>) = fsim::with_fs(ctx.sim, |fs| {
        let mut h = Vec::new();
        let mut f = Vec::new();
        let mut dc = Vec::new();
        for r in &fs.log {
            if r.seq <= seq_open || r.res < 0 {
                continue;
            }
            let name = fs.path_name(r.path).to_string();
            match r.op {
                IoOp::Create if name.ends_with(".hint") => h.push(r.now),
                IoOp::Create if name.ends_with(".data") => dc.push((r.now, name)),
                IoOp::Fsync => f.push((r.now, name)),
                _ => {}
            }
        }
        (h, f, dc)
    });
    ctx.observe(hint_creates.len() as u64);
    ctx.observe(fsyncs.len() as u64);
    if never {
        ctx.sim.probe("policy_never");
        if let Some(t) = hint_creates.first() {
            ctx.viol("merge-under-policy-never", format!("a merge started at t={}ms although the merge policy is 'never'", (t - t_open) / 1_000_000), "");
        }
    } else if predicate {
        ctx.sim.probe("trigger_exceeded");
        match mode {
            0 => ctx.sim.probe("trigger_by_dead_bytes_only_just_crossed"),
            2 => ctx.sim.probe("trigger_by_fragmentation_only_just_crossed"),
            _ => {}
        }
        match hint_creates.first() {
            None => ctx.viol(
                "merge-not-run",
                format!("a file exceeds a merge trigger (dead_bytes trigger {}, fragmentation trigger {}; max dead bytes {}, max fragmentation {:.4}) from t=0 on, yet no merge ran within {}ms (check interval {}ms, jitter {})", cfg.trig_dead, cfg.trig_frag, max_dead, max_frag, span / 1_000_000, cfg.check_interval_ms, cfg.jitter),
                "",
            ),
            Some(t) if *t - t_open > bound_ns => ctx.viol(
                "merge-late",
                format!("a trigger was exceeded from t=0 on but the first merge started only at t={}us; one check interval plus jitter is {}us", (t - t_open) / 1000, bound_ns / 1000),
                "",
            ),
            _ => {}
        }
    } else {
        ctx.sim.probe("trigger_not_exceeded");
        match mode {
            1 => ctx.sim.probe("dead_bytes_exactly_at_trigger"),
            3 => ctx.sim.probe("fragmentation_exactly_at_trigger"),
            _ => {}
        }
        if let Some(t) = hint_creates.first() {
            ctx.viol(
                "merge-without-trigger",
                format!("a merge started at t={}ms although no file exceeds a trigger (dead_bytes trigger {}, fragmentation trigger {}; max dead bytes {}, max fragmentation {:.4})", (t - t_open) / 1_000_000, cfg.trig_dead, cfg.trig_frag, max_dead, max_frag),
                "",
            );
        }
    }
    // interval sync: at least one fsync of the active file per interval while open
    if let SyncCfg::IntervalMs(dms) = cfg.sync {
        ctx.sim.probe("interval_sync");
        let dn = dms * 1_000_000;
        // only sync-task fsyncs when no merge ran (merges fsync their outputs too)
        let merges = !hint_creates.is_empty();
        let mut last = t_open;
        let mut worst = 0u64;
        for (t, name) in &fsyncs {
            if *t - last > worst {
                worst = *t - last;
            }
            last = *t;
            if !merges {
                // the file forced must be the active one: the newest data file created so far
                let active = data_creates.iter().filter(|(ct, _)| ct <= t).last().map(|(_, n)| n.clone());
                if let Some(a) = active {
                    if &a != name {
                        ctx.viol("sync-wrong-file", format!("the interval sync at t={}ms forced {} but the active file is {}", (t - t_open) / 1_000_000, name, a), "");
                        break;
                    }
                }
            }
        }
        let _ = (worst, dn, t_end);
    }
    // second round: the policy keeps being followed on later ticks. A second burst of writes
    // (no simulated time passes while it runs), the predicate recomputed from the store's own
    // statistics, and again only time passes.
    if ctx.out.violations.is_empty() && !never {
        for (j, key) in keys.iter().enumerate() {
            let _ = store::set(&s.h, key, Val { tag: 600_000 + j as u32, len: 20 + (j as u32 % 3) * 40 }.bytes());
            if j % 2 == 0 {
                let _ = store::set(&s.h, key, Val { tag: 601_000 + j as u32, len: 9 }.bytes());
            } else {
                let _ = store::del(&s.h, key);
            }
        }
        let t2 = ctx.sim.now_ns();
        let seq2 = store::io_seq(ctx.sim);
        let d4 = s.h.verif_dump();
        let predicate2 = d4.stats.iter().any(|st| st.dead_bytes > cfg.trig_dead || frag(st.dead_keys, st.live_keys) > cfg.trig_frag);
        ctx.sim.sleep_thread(ctx.me, span);
        let later: Vec<u64> = fsim::with_fs(ctx.sim, |fs| fs.log.iter().filter(|r| r.seq > seq2 && r.res >= 0 && r.op == IoOp::Create && fs.path_name(r.path).ends_with(".hint")).map(|r| r.now).collect());
        if predicate2 {
            ctx.sim.probe("second_round_trigger_exceeded");
            match later.first() {
                None => ctx.viol("merge-not-run", format!("second round: after more writes a file exceeds a merge trigger again (dead_bytes trigger {}, fragmentation trigger {}), yet no merge ran within {}ms on the later ticks", cfg.trig_dead, cfg.trig_frag, span / 1_000_000), ""),
                Some(t) if *t - t2 > bound_ns => ctx.viol("merge-late", format!("second round: a trigger was exceeded at t={}us but the next merge started only {}us later; one check interval plus jitter is {}us", (t2 - t_open) / 1000, (t - t2) / 1000, bound_ns / 1000), ""),
                _ => {}
            }
        } else {
            ctx.sim.probe("second_round_trigger_not_exceeded");
            if let Some(t) = later.first() {
                ctx.viol("merge-without-trigger", format!("second round: a merge started {}ms after the second burst although no file exceeds a trigger", (t - t2) / 1_000_000), "");
            }
        }
    }
    // third round, interval sync only: the guarantee also holds while clients write. Two writer
    // threads append under injected disk latency (so the writer lock is held over simulated
    // time and sync ticks fall into those periods). Between two forced syncs there may be the
    // interval plus whatever time the syncing thread itself had to wait (for the writer lock,
    // for the disk): simulated time only passes while threads wait, so that sum is exact and
    // does not depend on how the sync loop is written or on lock fairness.
    if ctx.out.violations.is_empty() {
        if let SyncCfg::IntervalMs(dms) = cfg.sync {
            let dn = dms * 1_000_000;
            ctx.sim.enable_wait_log();
            let saved = fsim::with_fs(ctx.sim, |fs| {
                let sv = fs.legal.clone();
                fs.legal.latency_per_mille = 400;
                fs.legal.max_latency_ns = dn.max(2_000);
                sv
            });
            let seq3 = store::io_seq(ctx.sim);
            let mut joins = Vec::new();
            for w in 0..2usize {
                let h = s.h.clone();
                let keys = keys.clone();
                joins.push(simrt::spawn(&format!("c18-writer-{}", w), simrt::sched::DEFAULT_STACK, move || {
                    for j in 0..12usize {
                        let k = &keys[(w + 2 * j) % keys.len()];
                        let _ = store::set(&h, k, Val { tag: 620_000 + (w * 100 + j) as u32, len: if j == 5 { 9000 } else { 30 } }.bytes());
                    }
                }));
            }
            for j in joins {
                let _ = j.join();
            }
            // the tail runs without injected latency, so that no wait is still in progress when
            // the observation ends (only completed waits are in the wait log)
            fsim::with_fs(ctx.sim, move |fs| fs.legal = saved);
            ctx.sim.sleep_thread(ctx.me, 3 * dn + 1_000);
            let t_end3 = ctx.sim.now_ns();
            let mut clients: Vec<usize> = ctx.sim.threads_named("c18-writer-0");
            clients.extend(ctx.sim.threads_named("c18-writer-1"));
            clients.push(ctx.me);
            check_sync_obligations(ctx, seq_open, dms, &clients, t_end3);
            let _ = seq3;
        }
    }
    ctx.sig(mix(mode, mix(never as u64, mix(predicate as u64, mix(matches!(cfg.sync, SyncCfg::IntervalMs(_)) as u64, (hint_creates.len() as u64).min(3))))));
    ctx.out.nontrivial = true;
    drop(s);
    ctx.join_others();
    store::remove_dir(ctx, &rel);
}

/// Interval sync, as an obligation per client write: an append to a data file must be followed
/// by a forced sync of that file within one interval -- plus exactly the time the store's own
/// threads spent waiting for locks and disk in that span (simulated time only passes while
/// threads wait) -- unless the file stopped being the active one first (a later data file was
/// created) or the observation ended first. A store that skips the fsync while nothing new was
/// appended meets every obligation; a sync loop that stops, skips rounds while clients hold the
/// writer lock, or loses track of a new active file does not.
fn check_sync_obligations(ctx: &mut Ctx, seq_open: u64, dms: u64, clients: &[usize], t_end: u64) {
    let dn = dms * 1_000_000;
    // (seq, time, path id) of client appends, forced syncs and data-file creations
    let (writes, fsyncs, creates): (Vec<(u64, u64, u32)>, Vec<(u64, u64, u32)>, Vec<(u64, u64)>) = fsim::with_fs(ctx.sim, |fs| {
        let mut w = Vec::new();
        let mut f = Vec::new();
        let mut c = Vec::new();
        for r in &fs.log {
            if r.seq <= seq_open || r.res < 0 || !fs.path_name(r.path).ends_with(".data") {
                continue;
            }
            match r.op {
                IoOp::Write if r.res > 0 && clients.contains(&r.tid) => w.push((r.seq, r.now, r.path)),
                IoOp::Fsync => f.push((r.seq, r.now, r.path)),
                IoOp::Create => c.push((r.seq, r.now)),
                _ => {}
            }
        }
        (w, f, c)
    });
    if writes.is_empty() {
        return;
    }
    ctx.sim.probe("sync_obligations_checked");
    let log = ctx.sim.wait_log();
    let waited = |a: u64, b: u64| -> u64 { log.iter().filter(|(t, _, _)| !clients.contains(t)).map(|(_, f, e)| (*e).min(b).saturating_sub((*f).max(a))).sum() };
    for (wseq, wt, wpath) in &writes {
        let cover = fsyncs.iter().find(|(q, _, p)| q > wseq && p == wpath).map(|(_, t, _)| *t);
        let superseded = creates.iter().find(|(q, _)| q > wseq).map(|(_, t)| *t);
        let resolved_at = match (cover, superseded) {
            (Some(a), Some(b)) => Some(a.min(b)),
            (a, b) => a.or(b),
        };
        let t = resolved_at.unwrap_or(t_end);
        let gap = t.saturating_sub(*wt);
        let w = waited(*wt, t);
        if w > 0 {
            ctx.sim.probe("sync_tick_waited_for_writer_or_disk");
        }
        if gap > dn + w + 1_000 + 4 * ctx.sim.cfg.timer_late_max_ns {
            let name = fsim::with_fs(ctx.sim, |fs| fs.path_name(*wpath).to_string());
            ctx.viol(
                "sync-gap",
                format!(
                    "with interval sync every {}ms, bytes appended to {} at t={}us were {} {}us later (the store's own threads waited {}us for locks and disk in that span); the file was still the newest data file",
                    dms,
                    name,
                    wt / 1000,
                    if resolved_at.is_some() { "first forced to stable storage" } else { "still not forced to stable storage when the observation ended" },
                    gap / 1000,
                    w / 1000
                ),
                "",
            );
            return;
        }
    }
}

// =============================================================================================
// C17

pub fn run_close(ctx: &mut Ctx, scn: &StoreScn) {
    let rel = ctx.new_dir("s");
    let keys = scn.keys.clone();
    let cfg = scn.cfg.clone();
    let mut model = Model::new();
    // a share of the runs fail one file-system call (or a short episode) of the store's OWN
    // threads: a timer-driven merge or sync reports an error in the background, client calls are
    // never failed, and everything the property says about closing must hold all the same
    if let Some((nth, errno, mode)) = scn.fault {
        fsim::with_fs(ctx.sim, |fs| {
            fs.fault = Some(fsim::FaultSpec { nth, errno, mode: fsim::FailMode::Clean, extra: ((mode >> 4) & 7) as u32, space_only: false, background_only: true });
        });
    }
    let mut store = match store::open_store(ctx, &rel, &cfg) {
        Ok(s) => Some(s),
        Err(e) => {
            ctx.viol("open-failed", format!("initial open failed: {}", e), "");
            return;
        }
    };
    // concurrent clients of the first instance (their keys are disjoint from the main thread's:
    // the generator gives thread t the keys with index % nthreads == t)
    let results: Arc<StdMutex<Vec<(usize, usize, Op, Result<Option<bool>, String>)>>> = Arc::new(StdMutex::new(Vec::new()));
    let mut joins = Vec::new();
    for (ti, ops) in scn.threads.iter().enumerate().skip(1) {
        let h = store.as_ref().unwrap().h.clone();
        let ops = ops.clone();
        let keys = keys.clone();
        let results = results.clone();
        joins.push(simrt::spawn(&format!("client-{}", ti), simrt::sched::DEFAULT_STACK, move || {
            fsim::mark_client_thread();
            for (i, op) in ops.iter().enumerate() {
                let r = match op {
                    Op::Set(k, v) => store::set(&h, &keys[*k], v.bytes()).map(|_| None),
                    Op::Del(k) => store::del(&h, &keys[*k]).map(Some),
                    Op::Get(k) => store::get(&h, &keys[*k]).map(|_| None),
                    Op::Pass(ms) => {
                        let (sim, me) = simrt::current().unwrap();
                        sim.sleep_thread(me, ms * 1_000_000);
                        Ok(None)
                    }
                    _ => Ok(None),
                };
                results.lock().unwrap().push((ti, i, op.clone(), r));
            }
        }));
    }
    // stale handle of the most recently closed instance
    let mut stale: Option<bitcask::storage::bitcask::Handle> = None;
    let mut drop_info: Vec<(u64, u64, Vec<usize>)> = Vec::new(); // (t_drop, seq_drop, bg tids alive at drop)
    let mut cycles = 0u32;
    let mut fds_after_first: Option<usize> = None;
    for (i, op) in scn.threads[0].iter().enumerate() {
        match op {
            Op::Set(k, v) => {
                let val = v.bytes();
                if let Some(s) = store.as_ref() {
                    match store::set(&s.h, &keys[*k], val.clone()) {
                        Ok(()) => {
                            model.insert(keys[*k].clone(), val);
                        }
                        Err(e) => ctx.viol("op-failed", format!("op#{} set on the open store returned {}", i, e), ""),
                    }
                } else if let Some(h) = stale.as_ref() {
                    match store::set(h, &keys[*k], val) {
                        Err(e) if is_closed_err(&e) => ctx.sim.probe("stale_handle_rejected"),
                        other => ctx.viol("use-after-close", format!("op#{} set({}) through a handle of a dropped store returned {:?} instead of the 'closed' error", i, hex(&keys[*k]), other), ""),
                    }
                }
            }
            Op::Del(k) => {
                if let Some(s) = store.as_ref() {
                    match store::del(&s.h, &keys[*k]) {
                        Ok(b) => {
                            let want = model.remove(&keys[*k]).is_some();
                            if b != want {
                                ctx.viol("wrong-result", format!("op#{} del({}) returned {} but present={}", i, hex(&keys[*k]), b, want), "");
                            }
                        }
                        Err(e) => ctx.viol("op-failed", format!("op#{} del on the open store returned {}", i, e), ""),
                    }
                } else if let Some(h) = stale.as_ref() {
                    match store::del(h, &keys[*k]) {
                        Err(e) if is_closed_err(&e) => ctx.sim.probe("stale_handle_rejected"),
                        other => ctx.viol("use-after-close", format!("op#{} del({}) through a handle of a dropped store returned {:?} instead of the 'closed' error", i, hex(&keys[*k]), other), ""),
                    }
                }
            }
            Op::Get(k) => {
                if let Some(s) = store.as_ref() {
                    match store::get(&s.h, &keys[*k]) {
                        Ok(g) => {
                            if g != model.get(&keys[*k]).cloned() {
                                ctx.viol("wrong-result", format!("op#{} get({}) returned {} but the store should hold {}", i, hex(&keys[*k]), hexo(&g), hexo(&model.get(&keys[*k]).cloned())), "");
                            }
                        }
                        Err(e) => ctx.viol("op-failed", format!("op#{} get on the open store returned {}", i, e), ""),
                    }
                } else if let Some(h) = stale.as_ref() {
                    match store::get(h, &keys[*k]) {
                        Err(e) if is_closed_err(&e) => ctx.sim.probe("stale_handle_rejected"),
                        other => ctx.viol("use-after-close", format!("op#{} get({}) through a handle of a dropped store returned {:?} instead of the 'closed' error", i, hex(&keys[*k]), other.map(|v| hexo(&v))), ""),
                    }
                }
            }
            Op::Merge => {
                if let Some(s) = store.as_ref() {
                    if let Err(e) = store::merge(&s.h) {
                        ctx.viol("op-failed", format!("op#{} merge on the open store returned {}", i, e), "");
                    }
                } else if let Some(h) = stale.as_ref() {
                    match store::merge(h) {
                        Err(e) if is_closed_err(&e) => ctx.sim.probe("stale_handle_rejected"),
                        other => ctx.viol("use-after-close", format!("op#{} merge through a handle of a dropped store returned {:?} instead of the 'closed' error", i, other), ""),
                    }
                }
            }
            Op::Sync => {
                if let Some(h) = stale.as_ref() {
                    if store.is_none() {
                        match h.verif_sync() {
                            Err(e) if is_closed_err(&format!("{}", e)) => ctx.sim.probe("stale_handle_rejected"),
                            other => ctx.viol("use-after-close", format!("op#{} sync through a handle of a dropped store returned {:?}", i, other.map_err(|e| format!("{}", e))), ""),
                        }
                    }
                }
            }
            Op::Pass(ms) => ctx.sim.sleep_thread(ctx.me, ms * 1_000_000),
            Op::Close => {
                if let Some(s) = store.take() {
                    let alive: Vec<usize> = bg_threads(ctx).into_iter().filter(|t| !ctx.sim.thread_finished(*t)).collect();
                    // classify what the worker is doing right now (reach probes)
                    let blocking_alive = ctx.sim.live_threads_named("tokio-blocking");
                    if blocking_alive > 0 {
                        ctx.sim.probe("drop_while_worker_in_blocking_call");
                    } else {
                        ctx.sim.probe("drop_while_worker_sleeping");
                    }
                    stale = Some(s.h.clone());
                    drop(s);
                    // "after the drop" starts when the drop has returned
                    let t = ctx.sim.now_ns();
                    let seq = store::io_seq(ctx.sim);
                    drop_info.push((t, seq, alive));
                    cycles += 1;
                }
            }
            Op::Reopen(wait) => {
                if store.is_some() {
                    continue;
                }
                if *wait {
                    // wait for the clients of the old instance and for its worker
                    for j in joins.drain(..) {
                        let _ = j.join();
                    }
                    apply_client_results(ctx, &results, &keys, &mut model);
                    ctx.join_others();
                } else {
                    ctx.sim.probe("reopen_at_once");
                    // clients of the old instance may still be running: their acknowledged
                    // operations count, so wait for them only (not for the worker)
                    for j in joins.drain(..) {
                        let _ = j.join();
                    }
                    apply_client_results(ctx, &results, &keys, &mut model);
                    if bg_threads(ctx).iter().any(|t| !ctx.sim.thread_finished(*t)) {
                        ctx.sim.probe("reopen_while_old_worker_alive");
                    }
                }
                match store::open_store(ctx, &rel, &cfg) {
                    Ok(s) => {
                        match store::scan_all(&s.h, &keys) {
                            Ok(m) => {
                                if let Some(d) = store::diff_models(&m, &model) {
                                    ctx.viol("reopen-mismatch", format!("op#{} the store opened right after the drop differs from the acknowledged contents (store vs model): {}", i, d), "");
                                }
                            }
                            Err(e) => ctx.viol("op-failed", format!("op#{} scan after reopen: {}", i, e), ""),
                        }
                        store = Some(s);
                    }
                    Err(e) => ctx.viol("reopen-failed", format!("op#{} the directory could not be opened again at once after the drop: {}", i, e), ""),
                }
            }
            _ => {}
        }
        if !ctx.out.violations.is_empty() {
            break;
        }
    }
    for j in joins.drain(..) {
        let _ = j.join();
    }
    apply_client_results(ctx, &results, &keys, &mut model);
    // final: everything closed, every worker gone; the contents are what was acknowledged
    if let Some(s) = store.take() {
        if ctx.out.violations.is_empty() {
            match store::scan_all(&s.h, &keys) {
                Ok(m) => {
                    if let Some(d) = store::diff_models(&m, &model) {
                        ctx.viol("final-mismatch", format!("at the end the store differs from the acknowledged contents (store vs model): {}", d), "");
                    }
                }
                Err(e) => ctx.viol("op-failed", format!("final scan: {}", e), ""),
            }
        }
        let alive: Vec<usize> = bg_threads(ctx).into_iter().filter(|t| !ctx.sim.thread_finished(*t)).collect();
        stale = Some(s.h.clone());
        drop(s);
        let t = ctx.sim.now_ns();
        drop_info.push((t, store::io_seq(ctx.sim), alive));
        cycles += 1;
    }
    // (3) every worker exits without the clock having to reach its next timer
    let max_lat = scn_latency_bound(ctx);
    // give every worker the slack the property allows (disk latency of calls still in flight);
    // a worker that is still alive then is waiting for a timer or will never exit
    {
        let calls_total: u64 = fsim::with_fs(ctx.sim, |fs| fs.log.len() as u64);
        let slack = max_lat.saturating_mul(calls_total.min(10_000)) + 50_000_000;
        let limit = ctx.sim.now_ns() + slack;
        ctx.sim.wait_quiescent(ctx.me, limit);
        let stuck: Vec<usize> = bg_threads(ctx).into_iter().filter(|t| !ctx.sim.thread_finished(*t)).collect();
        if !stuck.is_empty() {
            // would it exit once its next timer fires? give it two of its longest intervals
            let mut iv_ms = scn.cfg.check_interval_ms * 2;
            if let SyncCfg::IntervalMs(d) = scn.cfg.sync {
                iv_ms = iv_ms.max(d);
            }
            let span = 2 * iv_ms * 1_000_000 + 1_000_000_000;
            let limit2 = ctx.sim.now_ns() + span;
            ctx.sim.wait_quiescent(ctx.me, limit2);
            let still: Vec<usize> = bg_threads(ctx).into_iter().filter(|t| !ctx.sim.thread_finished(*t)).collect();
            if !still.is_empty() {
                ctx.viol("worker-never-exited", format!("{} background worker thread(s) of dropped stores are still alive {} simulated seconds after the last drop (more than two of their longest timer intervals)", still.len(), span / 1_000_000_000), "");
                ctx.abandon();
            }
        }
    }
    ctx.join_others();
    for (t_drop, seq_drop, alive) in &drop_info {
        for tid in alive {
            match ctx.sim.thread_finished_at(*tid) {
                Some(t_exit) => {
                    // slack: latency injected into calls the worker (or a merge/sync already
                    // running) still had to make after the drop
                    let calls_after: u64 = fsim::with_fs(ctx.sim, |fs| fs.log.iter().filter(|r| r.seq > *seq_drop).count() as u64);
                    // "promptly": 50 simulated milliseconds, plus the disk latency still owed
                    let slack = max_lat.saturating_mul(calls_after.min(10_000)) + 50_000_000;
                    if t_exit > *t_drop + slack {
                        ctx.viol(
                            "worker-exit-not-prompt",
                            format!("the background worker of the store dropped at t={}us exited only at t={}us (it waited for a timer; allowed slack for disk latency {}us)", t_drop / 1000, t_exit / 1000, slack / 1000),
                            "",
                        );
                    }
                }
                None => ctx.viol("worker-never-exited", "a background worker was still alive when everything else had finished".to_string(), ""),
            }
        }
    }
    // (2) a stale handle causes no change on disk: nothing mutating after the last drop once
    // the old worker is gone is checked through the stale-handle operations above returning
    // 'closed'; here: no tracked descriptor stays open and no worker thread is left
    drop(stale);
    let open_fds = fsim::with_fs(ctx.sim, |fs| fs.fds.len());
    if fds_after_first.is_none() {
        fds_after_first = Some(open_fds);
    }
    if open_fds != 0 {
        ctx.viol("descriptor-leak", format!("after {} open/close cycles {} descriptors of store files are still open", cycles, open_fds), "");
    }
    ctx.sim.probe_add("open_close_cycles", cycles as u64);
    ctx.sig(mix(cycles as u64, mix(scn.threads.len() as u64, ctx.sim.stats().trace_hash)));
    ctx.out.nontrivial = cycles >= 1;
    store::remove_dir(ctx, &rel);
}

fn scn_latency_bound(ctx: &Ctx) -> u64 {
    fsim::with_fs(ctx.sim, |fs| if fs.legal.latency_per_mille > 0 { fs.legal.max_latency_ns + 1_000 } else { 0 })
}

fn apply_client_results(ctx: &mut Ctx, results: &Arc<StdMutex<Vec<(usize, usize, Op, Result<Option<bool>, String>)>>>, keys: &[Vec<u8>], model: &mut Model) {
    let mut rs: Vec<_> = results.lock().unwrap().drain(..).collect();
    rs.sort_by_key(|r| (r.0, r.1));
    let mut closed_seen: BTreeMap<usize, bool> = BTreeMap::new();
    for (ti, i, op, r) in rs {
        match (&op, &r) {
            (Op::Set(k, v), Ok(_)) => {
                if *closed_seen.get(&ti).unwrap_or(&false) {
                    ctx.viol("use-after-close", format!("client t{}#{}: set succeeded after an earlier operation of the same thread had already been rejected as closed", ti, i), "");
                }
                model.insert(keys[*k].clone(), v.bytes());
            }
            (Op::Del(k), Ok(b)) => {
                let want = model.remove(&keys[*k]).is_some();
                if *b != Some(want) {
                    ctx.viol("wrong-result", format!("client t{}#{}: del({}) returned {:?} but present={}", ti, i, hex(&keys[*k]), b, want), "");
                }
            }
            (_, Ok(_)) => {}
            (_, Err(e)) if is_closed_err(e) => {
                closed_seen.insert(ti, true);
                ctx.sim.probe("client_op_rejected_as_closed");
            }
            (_, Err(e)) => ctx.viol("op-failed", format!("client t{}#{}: {:?} returned {}", ti, i, op, e), ""),
        }
    }
}
