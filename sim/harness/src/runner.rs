//! Runs one scenario inside a fresh simulation.

use simrt::{SimConfig, Strategy};

use crate::scn::*;
use crate::store;

static RUN_COUNTER: std::sync::atomic::AtomicU64 = std::sync::atomic::AtomicU64::new(0);

pub fn base_dir() -> String {
    format!("/dev/shm/bcsim.{}", std::process::id())
}

pub fn sim_config(scn: &Scenario, record_trace: bool) -> SimConfig {
    SimConfig {
        seed: scn.seed,
        strategy: match scn.sim.strat {
            Strat::Fifo => Strategy::Fifo,
            Strat::Random(p) => Strategy::Random { per_mille: p },
            Strat::Pct(d, n) => Strategy::Pct { depth: d, est_steps: n },
        },
        step_cap: 3_000_000,
        num_cpus: scn.sim.num_cpus,
        record_trace,
        wall_epoch_ns: 1_700_000_000_000_000_000,
    }
}

pub fn run_scenario(scn: &Scenario) -> RunOut {
    let n = RUN_COUNTER.fetch_add(1, std::sync::atomic::Ordering::Relaxed);
    let root = format!("{}/r{}", base_dir(), n);
    std::fs::create_dir_all(&root).expect("create run dir");
    let cfg = sim_config(scn, false);
    let scn2 = scn.clone();
    let root2 = root.clone();
    let (out, _sim) = simrt::run(cfg, move || {
        let (sim, _) = simrt::current().unwrap();
        simrt::fsim::with_fs(sim, |fs| {
            fs.legal = simrt::fsim::LegalFaults {
                short_write_per_mille: scn2.sim.short_write_pm,
                eintr_per_mille: scn2.sim.eintr_pm,
                latency_per_mille: scn2.sim.latency_pm,
                max_latency_ns: scn2.sim.max_latency_us * 1000,
            };
        });
        let mut ctx = store::Ctx::new(&scn2.check, &root2);
        match &scn2.body {
            Body::Store(s) => match scn2.check.as_str() {
                "C01" | "C02" | "C05" | "C12" | "C13" | "C14" | "C19" => store::run_seq(&mut ctx, s),
                other => panic!("no engine for {}", other),
            },
            Body::Net(_) => panic!("net engine not built yet"),
        }
        ctx.finish()
    });
    let _ = std::fs::remove_dir_all(&root);
    out
}
