//! Runs one scenario inside a fresh simulation.

use simrt::{SimConfig, Strategy};

use crate::scn::*;
use crate::store;

static RUN_COUNTER: std::sync::atomic::AtomicU64 = std::sync::atomic::AtomicU64::new(0);

pub fn base_dir() -> String {
    format!("/dev/shm/bcsim.{}", std::process::id())
}

pub fn sim_config(scn: &Scenario, record_trace: bool) -> SimConfig {
    SimConfig {
        seed: scn.seed,
        strategy: match scn.sim.strat {
            Strat::Fifo => Strategy::Fifo,
            Strat::Random(p) => Strategy::Random { per_mille: p },
            Strat::Pct(d, n) => Strategy::Pct { depth: d, est_steps: n },
        },
        step_cap: 3_000_000,
        num_cpus: scn.sim.num_cpus,
        record_trace,
        wall_epoch_ns: 1_700_000_000_000_000_000,
        timer_late_max_ns: scn.sim.timer_late_us * 1000,
    }
}

fn run_sim<F>(scn: &Scenario, f: F) -> RunOut
where
    F: FnOnce(&mut store::Ctx, &Scenario) + Send + 'static,
{
    let n = RUN_COUNTER.fetch_add(1, std::sync::atomic::Ordering::Relaxed);
    let root = format!("{}/r{}", base_dir(), n);
    // a dead process with the same pid may have left files behind
    let _ = std::fs::remove_dir_all(&root);
    std::fs::create_dir_all(&root).expect("create run dir");
    let cfg = sim_config(scn, false);
    let scn2 = scn.clone();
    let root2 = root.clone();
    let (out, sim) = simrt::run(cfg, move || {
        let (sim, _) = simrt::current().unwrap();
        simrt::fsim::mark_client_thread();
        simrt::fsim::with_fs(sim, |fs| {
            fs.legal = simrt::fsim::LegalFaults {
                short_write_per_mille: scn2.sim.short_write_pm,
                eintr_per_mille: scn2.sim.eintr_pm,
                latency_per_mille: scn2.sim.latency_pm,
                max_latency_ns: scn2.sim.max_latency_us * 1000,
            };
        });
        rand::EXTREME_PER_MILLE.store(scn2.sim.jitter_extreme_pm, std::sync::atomic::Ordering::Relaxed);
        let mut ctx = store::Ctx::new(&scn2.check, &root2);
        f(&mut ctx, &scn2);
        ctx.finish()
    });
    let _ = std::fs::remove_dir_all(&root);
    if sim.abandoned.load(std::sync::atomic::Ordering::SeqCst) {
        ABANDONED.store(true, std::sync::atomic::Ordering::SeqCst);
    }
    out
}

/// a run left simulated threads behind: this process must not run another simulation
pub static ABANDONED: std::sync::atomic::AtomicBool = std::sync::atomic::AtomicBool::new(false);

fn store_of(scn: &Scenario) -> &StoreScn {
    match &scn.body {
        Body::Store(s) => s,
        _ => panic!("store scenario expected"),
    }
}

fn net_of(scn: &Scenario) -> &crate::netscn::NetScn {
    match &scn.body {
        Body::Net(n) => n,
        _ => panic!("net scenario expected"),
    }
}

fn merge_out(into: &mut RunOut, from: RunOut) {
    into.evaluations += from.evaluations;
    into.nontrivial |= from.nontrivial;
    into.sigs.extend(from.sigs);
    for (k, v) in from.probes {
        *into.probes.entry(k).or_insert(0) += v;
    }
    for (k, v) in from.faults {
        *into.faults.entry(k).or_insert(0) += v;
    }
    into.sim_ns += from.sim_ns;
    into.steps += from.steps;
    into.switches += from.switches;
    into.trace_hash = simrt::rng::mix(into.trace_hash, from.trace_hash);
    into.obs_hash = simrt::rng::mix(into.obs_hash, from.obs_hash);
    into.violations.extend(from.violations);
}

/// C20 without a pinned fault: enumerate (or sample) every faultable call of the workload.
fn run_fault_enumeration(scn: &Scenario) -> RunOut {
    use simrt::fsim::IoOp;
    let calls = std::sync::Arc::new(std::sync::Mutex::new(Vec::new()));
    let c2 = calls.clone();
    let mut total = run_sim(scn, move |ctx, scn| {
        let v = store::count_faultable(ctx, store_of(scn));
        *c2.lock().unwrap() = v;
    });
    total.evaluations = 0;
    if !total.violations.is_empty() {
        return total;
    }
    let calls: Vec<store::FaultableCall> = calls.lock().unwrap().clone();
    let s = store_of(scn);
    let mut rng = simrt::rng::Rng::stream(scn.seed, "fault-positions");
    let mut burst_rng = simrt::rng::Rng::stream(scn.seed, "fault-episodes");
    let episodes = burst_rng.one_in(3);
    let mut positions: Vec<usize> = (0..calls.len()).collect();
    let cap = s.max_crash_points as usize;
    if cap > 0 && positions.len() > cap {
        // always keep the first and last call of every operation
        let mut keep = std::collections::BTreeSet::new();
        for (i, c) in calls.iter().enumerate() {
            if i == 0 || calls[i - 1].tag != c.tag {
                keep.insert(i);
            }
            if i + 1 == calls.len() || calls[i + 1].tag != c.tag {
                keep.insert(i);
            }
        }
        let mut must: Vec<usize> = keep.iter().cloned().collect();
        let mut rest: Vec<usize> = positions.iter().cloned().filter(|p| !keep.contains(p)).collect();
        while must.len() > cap {
            let i = rng.usize_below(must.len());
            must.swap_remove(i);
        }
        while must.len() + rest.len() > cap && !rest.is_empty() {
            let i = rng.usize_below(rest.len());
            rest.swap_remove(i);
        }
        must.extend(rest);
        must.sort_unstable();
        positions = must;
    }
    for p in positions {
        let c = &calls[p];
        let (errno, mode) = match c.op {
            IoOp::Write => (*rng.pick(&[libc::ENOSPC, libc::EIO, libc::EDQUOT]), rng.below(2) as u8),
            IoOp::Create | IoOp::OpenWriteExisting => (*rng.pick(&[libc::ENOSPC, libc::EIO, libc::EDQUOT, libc::EMFILE]), 0),
            IoOp::Fsync => (libc::EIO, 0),
            IoOp::Unlink => (*rng.pick(&[libc::EIO, libc::EACCES]), 0),
            IoOp::Mmap => (libc::ENOMEM, 0),
            IoOp::Read => (libc::EIO, 0),
            IoOp::OpenDir => (*rng.pick(&[libc::EMFILE, libc::ENOMEM]), 0),
            IoOp::Stat => (*rng.pick(&[libc::EIO, libc::ENOMEM]), 0),
            _ => (*rng.pick(&[libc::EMFILE, libc::EIO]), 0),
        };
        let mut variants = vec![(errno, mode)];
        // in a third of the workloads every position is also the start of an episode: 1-3 further
        // calls fail as well, either a full disk (writes and creates fail with ENOSPC, the rest
        // works) or a failing device (every call fails with EIO)
        if episodes {
            let extra = 1 + burst_rng.below(3) as u8;
            let needs_space = matches!(c.op, IoOp::Write | IoOp::Create | IoOp::OpenWriteExisting);
            if needs_space && burst_rng.one_in(2) {
                variants.push((libc::ENOSPC, 0x80 | (extra << 4) | (burst_rng.below(2) as u8 & if c.op == IoOp::Write { 1 } else { 0 })));
            } else {
                variants.push((libc::EIO, extra << 4));
            }
        }
        let mut bad = false;
        for (errno, mode) in variants {
            let mut one = scn.clone();
            if let Body::Store(st) = &mut one.body {
                st.fault = Some((c.index, errno, mode));
            }
            let out = run_sim(&one, |ctx, scn| store::run_fault_one(ctx, store_of(scn)));
            bad = !out.violations.is_empty();
            merge_out(&mut total, out);
            if bad {
                total.pinned = Some(Box::new(one));
                break;
            }
        }
        if bad {
            break;
        }
    }
    total.evaluations = total.evaluations.max(1);
    total
}

pub fn run_scenario(scn: &Scenario) -> RunOut {
    match &scn.body {
        Body::Store(s) => match scn.check.as_str() {
            "C19" if s.threads.len() > 1 => run_sim(scn, |ctx, scn| store::run_conc(ctx, store_of(scn))),
            "C14" if s.fault.is_some() => {
                // the fault engine of C20, judged by the file discipline only (what the store
                // answers after a failed call is C20's subject)
                let mut out = run_sim(scn, |ctx, scn| store::run_fault_one(ctx, store_of(scn)));
                out.violations.retain(|v| matches!(v.class.as_str(), "file-discipline" | "id-not-monotonic" | "file-too-large" | "shadow-divergence"));
                out
            }
            "C01" | "C02" | "C05" | "C12" | "C13" | "C14" | "C19" => run_sim(scn, |ctx, scn| store::run_seq(ctx, store_of(scn))),
            "C03" => run_sim(scn, |ctx, scn| store::run_crash(ctx, store_of(scn), false)),
            "C09" => run_sim(scn, |ctx, scn| store::run_crash(ctx, store_of(scn), true)),
            "C04" => run_sim(scn, |ctx, scn| store::run_conc(ctx, store_of(scn))),
            "C17" => run_sim(scn, |ctx, scn| crate::bg::run_close(ctx, store_of(scn))),
            "C18" => run_sim(scn, |ctx, scn| crate::bg::run_policy(ctx, store_of(scn))),
            "C20" => {
                if s.fault.is_some() {
                    run_sim(scn, |ctx, scn| store::run_fault_one(ctx, store_of(scn)))
                } else {
                    run_fault_enumeration(scn)
                }
            }
            other => panic!("no engine for {}", other),
        },
        Body::Net(_) => {
            let seed = scn.seed;
            match scn.check.as_str() {
                "C06" => run_sim(scn, move |ctx, scn| crate::net::run_c06(ctx, net_of(scn), seed)),
                "C11" => run_sim(scn, move |ctx, scn| crate::net::run_c11(ctx, net_of(scn), seed)),
                "C08" => run_sim(scn, move |ctx, scn| crate::net::run_c08(ctx, net_of(scn), seed)),
                "C10" => run_sim(scn, move |ctx, scn| crate::net::run_c10(ctx, net_of(scn), seed)),
                "C15" => run_sim(scn, move |ctx, scn| crate::net::run_c15(ctx, net_of(scn), seed)),
                "C16" => run_sim(scn, move |ctx, scn| crate::net::run_c16(ctx, net_of(scn), seed)),
                other => panic!("no net engine for {}", other),
            }
        }
    }
}
