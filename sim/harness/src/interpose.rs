//! libc entry points defined in the executable: every call the (statically linked) Rust std,
//! memmap2 and the repository make goes through these. Calls that concern the run's tracked
//! directory are handed to `simrt::fsim` (scheduling point, I/O log, fault plan, shadow);
//! everything else goes straight to the kernel. `pthread_create` is interposed so that a
//! thread started by a simulated thread (the store's background thread) becomes a simulated
//! thread at a deterministic point.

#![allow(clippy::missing_safety_doc)]

use libc::{c_char, c_int, c_long, c_uint, c_void, mode_t, off_t, size_t, ssize_t};
use simrt::fsim::{self, IoOp};
use std::ffi::CStr;

#[inline]
unsafe fn set_errno(e: i32) {
    *libc::__errno_location() = e;
}

#[inline]
unsafe fn raw(r: c_long) -> i64 {
    if r < 0 {
        -(*libc::__errno_location() as i64)
    } else {
        r as i64
    }
}

#[inline]
unsafe fn ret(r: i64) -> c_long {
    if r < 0 {
        set_errno((-r) as i32);
        -1
    } else {
        r as c_long
    }
}

#[inline]
fn interesting() -> bool {
    simrt::sched::in_sim() && !simrt::sched::suspended()
}

unsafe fn do_open(dirfd: c_int, path: *const c_char, flags: c_int, mode: mode_t) -> c_int {
    let real = || raw(libc::syscall(libc::SYS_openat, dirfd, path, flags, mode as c_uint));
    if !interesting() || path.is_null() || dirfd != libc::AT_FDCWD && *path != b'/' as c_char {
        return ret(real()) as c_int;
    }
    let p = CStr::from_ptr(path).to_bytes();
    ret(fsim::hook_open(p, flags, real)) as c_int
}

#[no_mangle]
pub unsafe extern "C" fn open(path: *const c_char, flags: c_int, mode: mode_t) -> c_int {
    do_open(libc::AT_FDCWD, path, flags, mode)
}

#[no_mangle]
pub unsafe extern "C" fn open64(path: *const c_char, flags: c_int, mode: mode_t) -> c_int {
    do_open(libc::AT_FDCWD, path, flags | libc::O_LARGEFILE, mode)
}

#[no_mangle]
pub unsafe extern "C" fn openat(dirfd: c_int, path: *const c_char, flags: c_int, mode: mode_t) -> c_int {
    do_open(dirfd, path, flags, mode)
}

#[no_mangle]
pub unsafe extern "C" fn openat64(dirfd: c_int, path: *const c_char, flags: c_int, mode: mode_t) -> c_int {
    do_open(dirfd, path, flags | libc::O_LARGEFILE, mode)
}

#[no_mangle]
pub unsafe extern "C" fn creat(path: *const c_char, mode: mode_t) -> c_int {
    do_open(libc::AT_FDCWD, path, libc::O_CREAT | libc::O_WRONLY | libc::O_TRUNC, mode)
}

#[no_mangle]
pub unsafe extern "C" fn creat64(path: *const c_char, mode: mode_t) -> c_int {
    do_open(libc::AT_FDCWD, path, libc::O_CREAT | libc::O_WRONLY | libc::O_TRUNC, mode)
}

#[no_mangle]
pub unsafe extern "C" fn write(fd: c_int, buf: *const c_void, count: size_t) -> ssize_t {
    if !interesting() || fd < 3 {
        return libc::syscall(libc::SYS_write, fd, buf, count) as ssize_t;
    }
    let data = std::slice::from_raw_parts(buf as *const u8, count);
    let r = fsim::hook_write(
        fd,
        data,
        |b| raw(libc::syscall(libc::SYS_write, fd, b.as_ptr(), b.len())),
        || raw(libc::syscall(libc::SYS_lseek, fd, 0 as off_t, libc::SEEK_CUR)),
    );
    ret(r) as ssize_t
}

#[no_mangle]
pub unsafe extern "C" fn fsync(fd: c_int) -> c_int {
    if !interesting() {
        return libc::syscall(libc::SYS_fsync, fd) as c_int;
    }
    ret(fsim::hook_fsync(fd, || raw(libc::syscall(libc::SYS_fsync, fd)))) as c_int
}

#[no_mangle]
pub unsafe extern "C" fn fdatasync(fd: c_int) -> c_int {
    if !interesting() {
        return libc::syscall(libc::SYS_fdatasync, fd) as c_int;
    }
    ret(fsim::hook_fsync(fd, || raw(libc::syscall(libc::SYS_fdatasync, fd)))) as c_int
}

#[no_mangle]
pub unsafe extern "C" fn unlink(path: *const c_char) -> c_int {
    let real = || raw(libc::syscall(libc::SYS_unlink, path));
    if !interesting() || path.is_null() {
        return ret(real()) as c_int;
    }
    let p = CStr::from_ptr(path).to_bytes();
    ret(fsim::hook_unlink(p, real)) as c_int
}

#[no_mangle]
pub unsafe extern "C" fn unlinkat(dirfd: c_int, path: *const c_char, flags: c_int) -> c_int {
    let real = || raw(libc::syscall(libc::SYS_unlinkat, dirfd, path, flags));
    if !interesting() || path.is_null() || flags & libc::AT_REMOVEDIR != 0 || (dirfd != libc::AT_FDCWD && *path != b'/' as c_char) {
        return ret(real()) as c_int;
    }
    let p = CStr::from_ptr(path).to_bytes();
    ret(fsim::hook_unlink(p, real)) as c_int
}

#[no_mangle]
pub unsafe extern "C" fn close(fd: c_int) -> c_int {
    if !simrt::sched::in_sim() {
        return libc::syscall(libc::SYS_close, fd) as c_int;
    }
    ret(fsim::hook_close(fd, || raw(libc::syscall(libc::SYS_close, fd)))) as c_int
}

unsafe fn do_mmap(addr: *mut c_void, len: size_t, prot: c_int, flags: c_int, fd: c_int, off: off_t) -> *mut c_void {
    let real = || libc::syscall(libc::SYS_mmap, addr, len, prot, flags, fd, off);
    if fd < 0 || !interesting() {
        return real() as *mut c_void;
    }
    let mut out: c_long = -1;
    let r = fsim::hook_read_side(IoOp::Mmap, fd, None, true, || {
        out = real();
        if out == -1 {
            -(*libc::__errno_location() as i64)
        } else {
            0
        }
    });
    if r < 0 {
        set_errno((-r) as i32);
        return libc::MAP_FAILED;
    }
    out as *mut c_void
}

#[no_mangle]
pub unsafe extern "C" fn mmap(addr: *mut c_void, len: size_t, prot: c_int, flags: c_int, fd: c_int, off: off_t) -> *mut c_void {
    do_mmap(addr, len, prot, flags, fd, off)
}

#[no_mangle]
pub unsafe extern "C" fn mmap64(addr: *mut c_void, len: size_t, prot: c_int, flags: c_int, fd: c_int, off: off_t) -> *mut c_void {
    do_mmap(addr, len, prot, flags, fd, off)
}

#[no_mangle]
pub unsafe extern "C" fn statx(dirfd: c_int, path: *const c_char, flags: c_int, mask: c_uint, buf: *mut libc::statx) -> c_int {
    let real = || raw(libc::syscall(libc::SYS_statx, dirfd, path, flags, mask, buf));
    if !interesting() || path.is_null() {
        return ret(real()) as c_int;
    }
    let p = CStr::from_ptr(path).to_bytes();
    if p.is_empty() {
        // fstat flavour (AT_EMPTY_PATH)
        return ret(fsim::hook_read_side(IoOp::Stat, dirfd, None, true, real)) as c_int;
    }
    if dirfd != libc::AT_FDCWD && p[0] != b'/' {
        return ret(real()) as c_int;
    }
    // path-based stat: the repository deliberately ignores its errors while listing a directory
    // ("ignore errors" in sorted_fileids), and read-side failures lie outside C20's quantifier
    // (write, create, fsync, unlink) anyway: scheduling point only, never a fault point
    ret(fsim::hook_read_side(IoOp::Stat, -1, Some(p), false, real)) as c_int
}

#[no_mangle]
pub unsafe extern "C" fn fstat(fd: c_int, buf: *mut libc::stat) -> c_int {
    let real = || raw(libc::syscall(libc::SYS_fstat, fd, buf));
    if !interesting() {
        return ret(real()) as c_int;
    }
    ret(fsim::hook_read_side(IoOp::Stat, fd, None, true, real)) as c_int
}

#[no_mangle]
pub unsafe extern "C" fn fstat64(fd: c_int, buf: *mut libc::stat64) -> c_int {
    let real = || raw(libc::syscall(libc::SYS_fstat, fd, buf));
    if !interesting() {
        return ret(real()) as c_int;
    }
    ret(fsim::hook_read_side(IoOp::Stat, fd, None, true, real)) as c_int
}

// ---- positional and vectored writes: ordinary writes for the shadow file system. A positional
// write is checked like any write of a non-append descriptor (it must land at the end of file);
// a vectored write is one write of the concatenated buffers (short writes and faults apply). ----

unsafe fn do_pwrite(fd: c_int, buf: *const c_void, count: size_t, off: off_t) -> ssize_t {
    let real = || raw(libc::syscall(libc::SYS_pwrite64, fd, buf, count, off));
    if !interesting() || fd < 3 {
        return ret(real()) as ssize_t;
    }
    let data = std::slice::from_raw_parts(buf as *const u8, count);
    let r = fsim::hook_write(fd, data, |b| raw(libc::syscall(libc::SYS_pwrite64, fd, b.as_ptr(), b.len(), off)), || off as i64);
    ret(r) as ssize_t
}

#[no_mangle]
pub unsafe extern "C" fn pwrite(fd: c_int, buf: *const c_void, count: size_t, off: off_t) -> ssize_t {
    do_pwrite(fd, buf, count, off)
}

#[no_mangle]
pub unsafe extern "C" fn pwrite64(fd: c_int, buf: *const c_void, count: size_t, off: off_t) -> ssize_t {
    do_pwrite(fd, buf, count, off)
}

unsafe fn gather(iov: *const libc::iovec, n: c_int) -> Vec<u8> {
    let mut v = Vec::new();
    for i in 0..n.max(0) as usize {
        let e = &*iov.add(i);
        if e.iov_len > 0 && !e.iov_base.is_null() {
            v.extend_from_slice(std::slice::from_raw_parts(e.iov_base as *const u8, e.iov_len));
        }
    }
    v
}

#[no_mangle]
pub unsafe extern "C" fn writev(fd: c_int, iov: *const libc::iovec, n: c_int) -> ssize_t {
    if !interesting() || fd < 3 || !fsim::is_store_fd(fd) {
        return ret(raw(libc::syscall(libc::SYS_writev, fd, iov, n))) as ssize_t;
    }
    let data = gather(iov, n);
    let r = fsim::hook_write(
        fd,
        &data,
        |b| raw(libc::syscall(libc::SYS_write, fd, b.as_ptr(), b.len())),
        || raw(libc::syscall(libc::SYS_lseek, fd, 0 as off_t, libc::SEEK_CUR)),
    );
    ret(r) as ssize_t
}

unsafe fn do_pwritev(fd: c_int, iov: *const libc::iovec, n: c_int, off: off_t) -> ssize_t {
    if !interesting() || fd < 3 || !fsim::is_store_fd(fd) {
        return ret(raw(libc::syscall(libc::SYS_pwritev, fd, iov, n, off, 0))) as ssize_t;
    }
    let data = gather(iov, n);
    let r = fsim::hook_write(fd, &data, |b| raw(libc::syscall(libc::SYS_pwrite64, fd, b.as_ptr(), b.len(), off)), || off as i64);
    ret(r) as ssize_t
}

#[no_mangle]
pub unsafe extern "C" fn pwritev(fd: c_int, iov: *const libc::iovec, n: c_int, off: off_t) -> ssize_t {
    do_pwritev(fd, iov, n, off)
}

#[no_mangle]
pub unsafe extern "C" fn pwritev64(fd: c_int, iov: *const libc::iovec, n: c_int, off: off_t) -> ssize_t {
    do_pwritev(fd, iov, n, off)
}

// ---- in-kernel copies would move bytes into a store file behind the shadow file system's back:
// on a store file they report "not supported" (a result the kernel may give on any file
// system), so that callers such as std::io::copy fall back to read and write. ----

#[no_mangle]
pub unsafe extern "C" fn copy_file_range(fd_in: c_int, off_in: *mut libc::off64_t, fd_out: c_int, off_out: *mut libc::off64_t, len: size_t, flags: c_uint) -> ssize_t {
    if interesting() && (fsim::is_store_fd(fd_in) || fsim::is_store_fd(fd_out)) {
        set_errno(libc::ENOSYS);
        return -1;
    }
    ret(raw(libc::syscall(libc::SYS_copy_file_range, fd_in, off_in, fd_out, off_out, len, flags))) as ssize_t
}

unsafe fn do_sendfile(out_fd: c_int, in_fd: c_int, off: *mut off_t, count: size_t) -> ssize_t {
    if interesting() && (fsim::is_store_fd(in_fd) || fsim::is_store_fd(out_fd)) {
        set_errno(libc::EINVAL);
        return -1;
    }
    ret(raw(libc::syscall(libc::SYS_sendfile, out_fd, in_fd, off, count))) as ssize_t
}

#[no_mangle]
pub unsafe extern "C" fn sendfile(out_fd: c_int, in_fd: c_int, off: *mut off_t, count: size_t) -> ssize_t {
    do_sendfile(out_fd, in_fd, off, count)
}

#[no_mangle]
pub unsafe extern "C" fn sendfile64(out_fd: c_int, in_fd: c_int, off: *mut off_t, count: size_t) -> ssize_t {
    do_sendfile(out_fd, in_fd, off, count)
}

#[no_mangle]
pub unsafe extern "C" fn splice(fd_in: c_int, off_in: *mut libc::loff_t, fd_out: c_int, off_out: *mut libc::loff_t, len: size_t, flags: c_uint) -> ssize_t {
    if interesting() && (fsim::is_store_fd(fd_in) || fsim::is_store_fd(fd_out)) {
        set_errno(libc::EINVAL);
        return -1;
    }
    ret(raw(libc::syscall(libc::SYS_splice, fd_in, off_in, fd_out, off_out, len, flags))) as ssize_t
}

// ---- positional and vectored reads of store files: read-side calls (scheduling point, log,
// read-side fault point) ----

unsafe fn do_pread(fd: c_int, buf: *mut c_void, count: size_t, off: off_t) -> ssize_t {
    let real = || raw(libc::syscall(libc::SYS_pread64, fd, buf, count, off));
    if !interesting() || fd < 3 {
        return ret(real()) as ssize_t;
    }
    ret(fsim::hook_read_side(IoOp::Read, fd, None, true, real)) as ssize_t
}

#[no_mangle]
pub unsafe extern "C" fn pread(fd: c_int, buf: *mut c_void, count: size_t, off: off_t) -> ssize_t {
    do_pread(fd, buf, count, off)
}

#[no_mangle]
pub unsafe extern "C" fn pread64(fd: c_int, buf: *mut c_void, count: size_t, off: off_t) -> ssize_t {
    do_pread(fd, buf, count, off)
}

#[no_mangle]
pub unsafe extern "C" fn readv(fd: c_int, iov: *const libc::iovec, n: c_int) -> ssize_t {
    let real = || raw(libc::syscall(libc::SYS_readv, fd, iov, n));
    if !interesting() || fd < 3 {
        return ret(real()) as ssize_t;
    }
    ret(fsim::hook_read_side(IoOp::Read, fd, None, true, real)) as ssize_t
}

// ---- calls that must never touch a store file (C14): executed, but recorded as breaches ----

#[no_mangle]
pub unsafe extern "C" fn ftruncate(fd: c_int, len: off_t) -> c_int {
    let real = || raw(libc::syscall(libc::SYS_ftruncate, fd, len));
    if !interesting() {
        return ret(real()) as c_int;
    }
    ret(fsim::hook_forbidden("ftruncate", fd, None, real)) as c_int
}

#[no_mangle]
pub unsafe extern "C" fn ftruncate64(fd: c_int, len: off_t) -> c_int {
    let real = || raw(libc::syscall(libc::SYS_ftruncate, fd, len));
    if !interesting() {
        return ret(real()) as c_int;
    }
    ret(fsim::hook_forbidden("ftruncate", fd, None, real)) as c_int
}

#[no_mangle]
pub unsafe extern "C" fn truncate(path: *const c_char, len: off_t) -> c_int {
    let real = || raw(libc::syscall(libc::SYS_truncate, path, len));
    if !interesting() || path.is_null() {
        return ret(real()) as c_int;
    }
    let p = CStr::from_ptr(path).to_bytes();
    ret(fsim::hook_forbidden("truncate", -1, Some(p), real)) as c_int
}

#[no_mangle]
pub unsafe extern "C" fn truncate64(path: *const c_char, len: off_t) -> c_int {
    truncate(path, len)
}

#[no_mangle]
pub unsafe extern "C" fn rename(old: *const c_char, new: *const c_char) -> c_int {
    let real = || raw(libc::syscall(libc::SYS_rename, old, new));
    if !interesting() || old.is_null() || new.is_null() {
        return ret(real()) as c_int;
    }
    let p = CStr::from_ptr(old).to_bytes();
    let q = CStr::from_ptr(new).to_bytes();
    ret(fsim::hook_rename(p, q, real)) as c_int
}

#[no_mangle]
pub unsafe extern "C" fn renameat(ofd: c_int, old: *const c_char, nfd: c_int, new: *const c_char) -> c_int {
    if ofd == libc::AT_FDCWD && nfd == libc::AT_FDCWD {
        return rename(old, new);
    }
    ret(raw(libc::syscall(libc::SYS_renameat, ofd, old, nfd, new))) as c_int
}

#[no_mangle]
pub unsafe extern "C" fn renameat2(ofd: c_int, old: *const c_char, nfd: c_int, new: *const c_char, flags: c_uint) -> c_int {
    if ofd == libc::AT_FDCWD && nfd == libc::AT_FDCWD && flags == 0 {
        return rename(old, new);
    }
    ret(raw(libc::syscall(libc::SYS_renameat2, ofd, old, nfd, new, flags))) as c_int
}

#[no_mangle]
pub unsafe extern "C" fn link(old: *const c_char, new: *const c_char) -> c_int {
    let real = || raw(libc::syscall(libc::SYS_link, old, new));
    if !interesting() || old.is_null() || new.is_null() {
        return ret(real()) as c_int;
    }
    let p = CStr::from_ptr(old).to_bytes();
    ret(fsim::hook_forbidden("link", -1, Some(p), real)) as c_int
}

// ---- threads -------------------------------------------------------------------------------

type StartFn = extern "C" fn(*mut c_void) -> *mut c_void;
type PthreadCreateFn = unsafe extern "C" fn(*mut libc::pthread_t, *const libc::pthread_attr_t, StartFn, *mut c_void) -> c_int;

struct Tramp {
    f: StartFn,
    arg: *mut c_void,
    tid: usize,
    sim: &'static simrt::Sim,
}

extern "C" fn trampoline(p: *mut c_void) -> *mut c_void {
    let t: Box<Tramp> = unsafe { Box::from_raw(p as *mut Tramp) };
    t.sim.child_entry(t.tid);
    let r = (t.f)(t.arg);
    t.sim.child_exit(t.tid);
    r
}

unsafe fn real_pthread_create() -> PthreadCreateFn {
    static mut REAL: Option<PthreadCreateFn> = None;
    if let Some(f) = REAL {
        return f;
    }
    let p = libc::dlsym(libc::RTLD_NEXT, b"pthread_create\0".as_ptr() as *const c_char);
    assert!(!p.is_null(), "cannot resolve pthread_create");
    let f: PthreadCreateFn = std::mem::transmute(p);
    REAL = Some(f);
    f
}

#[no_mangle]
pub unsafe extern "C" fn pthread_create(native: *mut libc::pthread_t, attr: *const libc::pthread_attr_t, f: StartFn, arg: *mut c_void) -> c_int {
    let real = real_pthread_create();
    match simrt::sched::implicit_spawn_prepare() {
        Some((sim, tid)) => {
            let b = Box::new(Tramp { f, arg, tid, sim });
            let raw = Box::into_raw(b);
            let r = real(native, attr, trampoline, raw as *mut c_void);
            if r != 0 {
                drop(Box::from_raw(raw));
                sim.abandon_child(tid);
            } else if !native.is_null() {
                remember_thread(*native, tid, sim.generation);
            }
            r
        }
        None => real(native, attr, f, arg),
    }
}

type SetNameFn = unsafe extern "C" fn(libc::pthread_t, *const c_char) -> c_int;

#[no_mangle]
pub unsafe extern "C" fn pthread_setname_np(t: libc::pthread_t, name: *const c_char) -> c_int {
    static mut REAL: Option<SetNameFn> = None;
    let real = match REAL {
        Some(f) => f,
        None => {
            let p = libc::dlsym(libc::RTLD_NEXT, b"pthread_setname_np\0".as_ptr() as *const c_char);
            assert!(!p.is_null());
            let f: SetNameFn = std::mem::transmute(p);
            REAL = Some(f);
            f
        }
    };
    if !name.is_null() && t == libc::pthread_self() {
        if let Some((sim, me)) = simrt::current() {
            if sim.is_implicit(me) {
                sim.set_thread_name(me, &CStr::from_ptr(name).to_string_lossy());
            }
        }
    }
    real(t, name)
}

// ---- OS randomness --------------------------------------------------------------------------
// std seeds `RandomState` (HashMap / HashSet iteration order) from getrandom(2), looked up as a
// weak symbol exactly so that it can be interposed. Inside a simulation the bytes come from
// the run's "osrandom" stream, so hash-map iteration order in the code under test is a function
// of the seed like everything else.

pub static GETRANDOM_CALLS: std::sync::atomic::AtomicU64 = std::sync::atomic::AtomicU64::new(0);

#[no_mangle]
pub unsafe extern "C" fn getrandom(buf: *mut c_void, len: size_t, flags: c_uint) -> ssize_t {
    if let Some((sim, _)) = simrt::current() {
        GETRANDOM_CALLS.fetch_add(1, std::sync::atomic::Ordering::Relaxed);
        let out = std::slice::from_raw_parts_mut(buf as *mut u8, len);
        sim.with_stream("osrandom", |r| r.fill(out));
        sim.probe("getrandom_simulated");
        return len as ssize_t;
    }
    libc::syscall(libc::SYS_getrandom, buf, len, flags) as ssize_t
}

// ---- read-side calls that only matter as fault points (C20, read faults) -------------------------

#[no_mangle]
pub unsafe extern "C" fn read(fd: c_int, buf: *mut c_void, count: size_t) -> ssize_t {
    let real = || raw(libc::syscall(libc::SYS_read, fd, buf, count));
    if !interesting() || fd < 3 {
        return ret(real()) as ssize_t;
    }
    ret(fsim::hook_read_side(IoOp::Read, fd, None, true, real)) as ssize_t
}

type OpenDirFn = unsafe extern "C" fn(*const c_char) -> *mut libc::DIR;

#[no_mangle]
pub unsafe extern "C" fn opendir(path: *const c_char) -> *mut libc::DIR {
    static mut REAL: Option<OpenDirFn> = None;
    let real = match REAL {
        Some(f) => f,
        None => {
            let p = libc::dlsym(libc::RTLD_NEXT, b"opendir\0".as_ptr() as *const c_char);
            assert!(!p.is_null());
            let f: OpenDirFn = std::mem::transmute(p);
            REAL = Some(f);
            f
        }
    };
    if !interesting() || path.is_null() {
        return real(path);
    }
    let p = CStr::from_ptr(path).to_bytes();
    let mut out: *mut libc::DIR = std::ptr::null_mut();
    let r = fsim::hook_read_side(IoOp::OpenDir, -1, Some(p), true, || {
        out = real(path);
        if out.is_null() {
            -(*libc::__errno_location() as i64)
        } else {
            0
        }
    });
    if r < 0 {
        set_errno((-r) as i32);
        return std::ptr::null_mut();
    }
    out
}

// ---- joining a thread that lives in the simulation --------------------------------------------
// `std::thread::JoinHandle::join` ends in pthread_join. If the joined thread is a simulated
// thread it needs the baton to finish, so the caller must first wait in the scheduler.

static JOIN_MAP: std::sync::Mutex<Vec<(libc::pthread_t, usize, u64)>> = std::sync::Mutex::new(Vec::new());

pub fn remember_thread(t: libc::pthread_t, tid: usize, generation: u64) {
    let mut m = JOIN_MAP.lock().unwrap_or_else(|e| e.into_inner());
    if m.len() > 4096 {
        m.drain(..2048);
    }
    m.push((t, tid, generation));
}

type JoinFn = unsafe extern "C" fn(libc::pthread_t, *mut *mut c_void) -> c_int;

#[no_mangle]
pub unsafe extern "C" fn pthread_join(t: libc::pthread_t, retval: *mut *mut c_void) -> c_int {
    static mut REAL: Option<JoinFn> = None;
    let real = match REAL {
        Some(f) => f,
        None => {
            let p = libc::dlsym(libc::RTLD_NEXT, b"pthread_join\0".as_ptr() as *const c_char);
            assert!(!p.is_null());
            let f: JoinFn = std::mem::transmute(p);
            REAL = Some(f);
            f
        }
    };
    if let Some((sim, me)) = simrt::current() {
        let target = {
            let m = JOIN_MAP.lock().unwrap_or_else(|e| e.into_inner());
            m.iter().rev().find(|(pt, _, g)| *pt == t && *g == sim.generation).map(|(_, tid, _)| *tid)
        };
        if let Some(tid) = target {
            if tid != me {
                sim.probe("pthread_join_of_simulated_thread");
                sim.block_join(me, tid);
            }
        }
    }
    real(t, retval)
}

// ---- clocks and sleeps of std ------------------------------------------------------------------
// `std::time::Instant::now()` / `SystemTime::now()` are clock_gettime(2) and `std::thread::sleep`
// is nanosleep(2) / clock_nanosleep(2), all reached through these libc symbols. On a simulated
// thread the clocks read the simulator's discrete-event clock (monotonic clocks: a fixed base plus
// simulated time; real-time clocks: the simulated wall clock, which the clock-jump fault skews)
// and a sleep is a timer wait of the calling thread in the scheduler. A tree that starts to use
// std's clocks or sleeps (a retry back-off, an idle time-out) therefore stays inside the
// simulation: no real time passes, and the run stays a function of the seed.

const MONO_BASE_NS: u64 = 1_000_000_000_000; // an arbitrary "uptime" at the start of a run

unsafe fn sim_clock_ns(clk: libc::clockid_t) -> Option<u64> {
    if !interesting() {
        return None;
    }
    let (sim, _) = simrt::current()?;
    match clk {
        libc::CLOCK_MONOTONIC | libc::CLOCK_MONOTONIC_RAW | libc::CLOCK_MONOTONIC_COARSE | libc::CLOCK_BOOTTIME => Some(MONO_BASE_NS + sim.now_ns()),
        libc::CLOCK_REALTIME | libc::CLOCK_REALTIME_COARSE => Some(sim.wall_ns().max(0) as u64),
        _ => None,
    }
}

#[no_mangle]
pub unsafe extern "C" fn clock_gettime(clk: libc::clockid_t, ts: *mut libc::timespec) -> c_int {
    if !ts.is_null() {
        if let Some(ns) = sim_clock_ns(clk) {
            (*ts).tv_sec = (ns / 1_000_000_000) as libc::time_t;
            (*ts).tv_nsec = (ns % 1_000_000_000) as c_long;
            simrt::sched::probe("std_clock_read_simulated");
            return 0;
        }
    }
    ret(raw(libc::syscall(libc::SYS_clock_gettime, clk, ts))) as c_int
}

unsafe fn sim_sleep(ns: u64) -> bool {
    if !interesting() {
        return false;
    }
    match simrt::current() {
        Some((sim, me)) => {
            sim.probe("std_sleep_simulated");
            sim.sleep_thread(me, ns);
            true
        }
        None => false,
    }
}

unsafe fn timespec_ns(ts: *const libc::timespec) -> u64 {
    ((*ts).tv_sec.max(0) as u64).saturating_mul(1_000_000_000).saturating_add((*ts).tv_nsec.max(0) as u64)
}

#[no_mangle]
pub unsafe extern "C" fn nanosleep(req: *const libc::timespec, rem: *mut libc::timespec) -> c_int {
    if !req.is_null() && sim_sleep(timespec_ns(req)) {
        if !rem.is_null() {
            (*rem).tv_sec = 0;
            (*rem).tv_nsec = 0;
        }
        return 0;
    }
    ret(raw(libc::syscall(libc::SYS_nanosleep, req, rem))) as c_int
}

/// Unlike the other entry points this one returns the error number directly (POSIX).
#[no_mangle]
pub unsafe extern "C" fn clock_nanosleep(clk: libc::clockid_t, flags: c_int, req: *const libc::timespec, rem: *mut libc::timespec) -> c_int {
    if !req.is_null() && interesting() {
        let want = timespec_ns(req);
        let ns = if flags & libc::TIMER_ABSTIME != 0 {
            match sim_clock_ns(clk) {
                Some(now) => Some(want.saturating_sub(now)),
                None => None,
            }
        } else {
            Some(want)
        };
        if let Some(ns) = ns {
            if sim_sleep(ns) {
                if !rem.is_null() && flags & libc::TIMER_ABSTIME == 0 {
                    (*rem).tv_sec = 0;
                    (*rem).tv_nsec = 0;
                }
                return 0;
            }
        }
    }
    let r = libc::syscall(libc::SYS_clock_nanosleep, clk, flags, req, rem);
    if r < 0 {
        *libc::__errno_location()
    } else {
        0
    }
}

// ---- futex: the blocking primitives of std ---------------------------------------------------
// std's Mutex, RwLock, Condvar, Once, Barrier, mpsc channels and thread::park block through
// futex(2), which std reaches through libc's `syscall` entry point. Defining `syscall` here puts
// that seam under the scheduler: when the code under test (running as a simulated thread that
// holds the baton) waits on a futex word, the thread blocks in the scheduler until a simulated
// FUTEX_WAKE on that word or until its time-out on the simulated clock; a wake makes simulated
// waiters runnable and is a scheduling point. Uncontended operations never reach futex(2), so
// nothing changes for them. The scheduler's own parking and lock acquisition are marked internal
// and always go to the kernel, as does every other system call number.
//
// `syscall` is variadic in C; on x86-64 variadic integer arguments travel exactly like fixed
// ones (rdi, rsi, rdx, rcx, r8, r9, then the stack), so a fixed seven-argument definition
// receives them correctly.

#[cfg(target_arch = "x86_64")]
#[inline]
unsafe fn raw_syscall6(num: c_long, a1: c_long, a2: c_long, a3: c_long, a4: c_long, a5: c_long, a6: c_long) -> c_long {
    let r: c_long;
    core::arch::asm!(
        "syscall",
        inlateout("rax") num => r,
        in("rdi") a1,
        in("rsi") a2,
        in("rdx") a3,
        in("r10") a4,
        in("r8") a5,
        in("r9") a6,
        lateout("rcx") _,
        lateout("r11") _,
        options(nostack)
    );
    r
}

const FUTEX_WAIT: c_long = 0;
const FUTEX_WAKE: c_long = 1;
const FUTEX_WAIT_BITSET: c_long = 9;
const FUTEX_WAKE_BITSET: c_long = 10;
const FUTEX_CLOCK_REALTIME: c_long = 256;
const FUTEX_CMD_MASK: c_long = !(128 | 256);

extern "C" {
    static __executable_start: u8;
    static _end: u8;
}

/// Is `addr` inside the executable's own image (text, data, bss)? Futex words there belong to
/// process-wide locks: std's own (`thread_info` of the stack-overflow handler, taken by every
/// thread while it starts and ends), lazily initialised globals of libraries. Threads that are
/// not under the scheduler's control (an OS thread that has not reached its entry hook yet, the
/// tail of a finished one) take those too, so a wait on them is a real, short wait as it always
/// was; it is never turned into a simulated one. Locks that the code under test creates live on
/// the heap or on a stack.
#[inline]
unsafe fn in_executable_image(addr: usize) -> bool {
    let lo = &__executable_start as *const u8 as usize;
    let hi = &_end as *const u8 as usize;
    addr >= lo && addr < hi
}

#[cfg(target_arch = "x86_64")]
#[no_mangle]
pub unsafe extern "C" fn syscall(num: c_long, a1: c_long, a2: c_long, a3: c_long, a4: c_long, a5: c_long, a6: c_long) -> c_long {
    if num == libc::SYS_futex && !in_executable_image(a1 as usize) && interesting() && simrt::sched::futex_is_users() {
        if let Some((sim, me)) = simrt::current() {
            let addr = a1 as usize;
            let cmd = a2 & FUTEX_CMD_MASK;
            match cmd {
                FUTEX_WAIT | FUTEX_WAIT_BITSET if sim.holds_baton(me) => {
                    let ts = a4 as *const libc::timespec;
                    let deadline = if ts.is_null() {
                        None
                    } else {
                        let t = timespec_ns(ts);
                        if cmd == FUTEX_WAIT {
                            Some(sim.now_ns().saturating_add(t)) // relative
                        } else {
                            // absolute, on the clock the caller names
                            let now_on_clock = if a2 & FUTEX_CLOCK_REALTIME != 0 { sim.wall_ns().max(0) as u64 } else { MONO_BASE_NS + sim.now_ns() };
                            Some(sim.now_ns().saturating_add(t.saturating_sub(now_on_clock)))
                        }
                    };
                    if std::env::var_os("BCSIM_FUTEX_TRACE").is_some() {
                        eprintln!("FUTEX-WAIT t{} addr={:#x} val={} deadline={:?}\n{}", me, addr, a3 as u32, deadline, std::backtrace::Backtrace::force_capture());
                    }
                    return match sim.futex_wait(me, addr, a3 as u32, deadline) {
                        None => {
                            set_errno(libc::EAGAIN);
                            -1
                        }
                        Some(true) => {
                            sim.probe("std_futex_wait_simulated");
                            set_errno(libc::ETIMEDOUT);
                            -1
                        }
                        Some(false) => {
                            sim.probe("std_futex_wait_simulated");
                            0
                        }
                    };
                }
                FUTEX_WAKE | FUTEX_WAKE_BITSET => {
                    let n = sim.futex_wake(addr, (a3.max(0)) as usize);
                    // a thread that is really blocked in the kernel on this word (it was not a
                    // simulated wait) is woken too
                    let r = raw_syscall6(num, a1, a2, a3, a4, a5, a6);
                    if n > 0 {
                        sim.probe("std_futex_wake_simulated");
                        if sim.holds_baton(me) {
                            sim.yield_point(me, simrt::sched::Kind::LockRelease, true);
                        }
                    }
                    let total = n as c_long + r.max(0);
                    return total;
                }
                _ => {}
            }
        }
    }
    let r = raw_syscall6(num, a1, a2, a3, a4, a5, a6);
    if (-4095..0).contains(&r) {
        set_errno((-r) as i32);
        -1
    } else {
        r
    }
}
