//! Independent decoder of the on-disk formats (shares no code with the repository).
//!
//! data entry : i64 tstamp | u64 klen | key | u8 tag | [u64 vlen | value]      (little endian)
//! hint entry : i64 tstamp | u64 len | u64 pos | u64 klen | key

use std::collections::BTreeMap;

#[derive(Clone, Debug, PartialEq, Eq)]
pub struct DataRec {
    pub pos: u64,
    pub len: u64,
    pub tstamp: i64,
    pub key: Vec<u8>,
    /// None = tombstone
    pub value: Option<Vec<u8>>,
}

#[derive(Clone, Debug, PartialEq, Eq)]
pub struct HintRec {
    pub tstamp: i64,
    pub len: u64,
    pub pos: u64,
    pub key: Vec<u8>,
}

fn u64_at(b: &[u8], at: usize) -> Option<u64> {
    b.get(at..at + 8).map(|s| u64::from_le_bytes(s.try_into().unwrap()))
}

/// Decode complete records; returns them and the number of trailing bytes that do not form a
/// complete record (a torn tail).
pub fn scan_data(b: &[u8]) -> (Vec<DataRec>, u64) {
    let mut out = Vec::new();
    let mut at = 0usize;
    loop {
        let start = at;
        let ts = match u64_at(b, at) {
            Some(v) => v as i64,
            None => break,
        };
        at += 8;
        let klen = match u64_at(b, at) {
            Some(v) => v as usize,
            None => break,
        };
        at += 8;
        if klen > b.len() || at + klen > b.len() {
            break;
        }
        let key = b[at..at + klen].to_vec();
        at += klen;
        let tag = match b.get(at) {
            Some(t) => *t,
            None => break,
        };
        at += 1;
        let value = if tag == 0 {
            None
        } else if tag == 1 {
            let vlen = match u64_at(b, at) {
                Some(v) => v as usize,
                None => break,
            };
            at += 8;
            if vlen > b.len() || at + vlen > b.len() {
                break;
            }
            let v = b[at..at + vlen].to_vec();
            at += vlen;
            Some(v)
        } else {
            // not a valid option tag: treat as garbage tail
            at = start;
            return (out, (b.len() - start) as u64);
        };
        out.push(DataRec { pos: start as u64, len: (at - start) as u64, tstamp: ts, key, value });
        continue;
    }
    let consumed: u64 = out.last().map(|r| r.pos + r.len).unwrap_or(0);
    (out, b.len() as u64 - consumed)
}

pub fn scan_hint(b: &[u8]) -> (Vec<HintRec>, u64) {
    let mut out = Vec::new();
    let mut at = 0usize;
    let mut consumed = 0usize;
    loop {
        let ts = match u64_at(b, at) {
            Some(v) => v as i64,
            None => break,
        };
        let len = match u64_at(b, at + 8) {
            Some(v) => v,
            None => break,
        };
        let pos = match u64_at(b, at + 16) {
            Some(v) => v,
            None => break,
        };
        let klen = match u64_at(b, at + 24) {
            Some(v) => v as usize,
            None => break,
        };
        if klen > b.len() || at + 32 + klen > b.len() {
            break;
        }
        let key = b[at + 32..at + 32 + klen].to_vec();
        at += 32 + klen;
        consumed = at;
        out.push(HintRec { tstamp: ts, len, pos, key });
    }
    (out, (b.len() - consumed) as u64)
}

/// Size on disk of a live entry.
pub fn entry_size(key: &[u8], value: &[u8]) -> u64 {
    8 + 8 + key.len() as u64 + 1 + 8 + value.len() as u64
}

pub fn tombstone_size(key: &[u8]) -> u64 {
    8 + 8 + key.len() as u64 + 1
}

/// `N.bitcask.data` / `N.bitcask.hint` -> (N, is_hint)
pub fn parse_name(name: &str) -> Option<(u64, bool)> {
    let mut it = name.split('.');
    let id = it.next()?.parse::<u64>().ok()?;
    if it.next()? != "bitcask" {
        return None;
    }
    match it.next()? {
        "data" => Some((id, false)),
        "hint" => Some((id, true)),
        _ => None,
    }
}

/// A directory as (file name -> bytes).
pub type DirImage = BTreeMap<String, Vec<u8>>;

#[derive(Clone, Debug, Default)]
pub struct Truth {
    /// key -> (file id, pos, len, value) of the newest record that is a value; keys whose newest
    /// record is a tombstone are absent
    pub live: BTreeMap<Vec<u8>, (u64, u64, u64, Vec<u8>)>,
    /// per data file: all complete records
    pub files: BTreeMap<u64, Vec<DataRec>>,
    pub torn: BTreeMap<u64, u64>,
}

/// What a full scan of the data files in ascending id order yields (newest record wins).
pub fn truth_of(dir: &DirImage) -> Truth {
    let mut t = Truth::default();
    let mut ids: Vec<u64> = dir.keys().filter_map(|n| parse_name(n)).filter(|(_, h)| !*h).map(|(i, _)| i).collect();
    ids.sort_unstable();
    for id in ids {
        let bytes = &dir[&format!("{}.bitcask.data", id)];
        let (recs, torn) = scan_data(bytes);
        if torn > 0 {
            t.torn.insert(id, torn);
        }
        for r in &recs {
            match &r.value {
                Some(v) => {
                    t.live.insert(r.key.clone(), (id, r.pos, r.len, v.clone()));
                }
                None => {
                    t.live.remove(&r.key);
                }
            }
        }
        t.files.insert(id, recs);
    }
    t
}
