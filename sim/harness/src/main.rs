//! bcsim — deterministic simulation harness for letung3105/bitcask.
//!
//!   bcsim supervise --check Cnn --tier quick|thorough --seed N   (what ./check runs)
//!   bcsim worker ...                                             (child of supervise)
//!   bcsim one                                                    (scenario on stdin -> RunOut on stdout)
//!   bcsim replay --file F
//!   bcsim gen --check Cnn --seed N --index I [--tier T]
//!   bcsim selftest --checks C01,C02 --runs N --seed S

mod bg;
mod gen;
mod interpose;
mod lin;
mod net;
mod resp;
mod netscn;
mod runner;
mod scan;
mod scn;
mod store;
mod supervisor;

use std::io::{BufRead, Read, Write};

use scn::*;

fn arg(args: &[String], name: &str) -> Option<String> {
    args.iter().position(|a| a == name).and_then(|i| args.get(i + 1).cloned())
}

fn install_fatal_hook() {
    simrt::sched::set_fatal_hook(Box::new(|info| {
        let kind = match info.kind {
            simrt::sched::FatalKind::Deadlock => "deadlock",
            simrt::sched::FatalKind::Livelock => "livelock",
            simrt::sched::FatalKind::StepCap => "step-cap",
        };
        let line = serde_json::json!({"t": "fatal", "kind": kind, "detail": info.detail, "step": info.step, "now_ns": info.now_ns});
        let out = std::io::stdout();
        let mut l = out.lock();
        let _ = writeln!(l, "{}", line);
        let _ = l.flush();
    }));
}

fn silence_panics() {
    // panics inside the system under test are observations, not noise on stderr
    std::panic::set_hook(Box::new(|info| {
        if std::env::var("BCSIM_PANIC_TRACE").is_ok() {
            eprintln!("panic: {}", info);
        }
    }));
}

fn main() {
    let args: Vec<String> = std::env::args().collect();
    let mode = args.get(1).map(|s| s.as_str()).unwrap_or("");
    match mode {
        "worker" => {
            let _ = std::fs::remove_dir_all(runner::base_dir());
            install_fatal_hook();
            silence_panics();
            let check = arg(&args, "--check").unwrap();
            let tier = arg(&args, "--tier").unwrap_or_else(|| "quick".into());
            let seed: u64 = arg(&args, "--seed").unwrap().parse().unwrap();
            let start: u64 = arg(&args, "--start").unwrap().parse().unwrap();
            let step: u64 = arg(&args, "--step").unwrap().parse().unwrap();
            let end: u64 = arg(&args, "--end").unwrap().parse().unwrap();
            let deadline: f64 = arg(&args, "--deadline").map(|s| s.parse().unwrap()).unwrap_or(1e9);
            let t0 = std::time::Instant::now();
            let out = std::io::stdout();
            let mut i = start;
            while i < end {
                if t0.elapsed().as_secs_f64() > deadline {
                    let mut l = out.lock();
                    let _ = writeln!(l, "{}", serde_json::json!({"t": "deadline", "i": i}));
                    break;
                }
                {
                    let mut l = out.lock();
                    let _ = writeln!(l, "{}", serde_json::json!({"t": "start", "i": i}));
                    let _ = l.flush();
                }
                let rs = simrt::rng::run_seed(seed, &check, i);
                let scn = gen::generate(&check, &tier, rs);
                let r = runner::run_scenario(&scn);
                let mut l = out.lock();
                let _ = writeln!(l, "{}", serde_json::json!({"t": "done", "i": i, "out": r}));
                let _ = l.flush();
                drop(l);
                if runner::ABANDONED.load(std::sync::atomic::Ordering::SeqCst) {
                    // simulated threads of that run are parked for good: be replaced
                    let _ = std::fs::remove_dir_all(runner::base_dir());
                    unsafe { libc::_exit(72) }
                }
                i += step;
            }
            let _ = std::fs::remove_dir_all(runner::base_dir());
        }
        "one" => {
            let _ = std::fs::remove_dir_all(runner::base_dir());
            install_fatal_hook();
            silence_panics();
            let mut s = String::new();
            std::io::stdin().read_to_string(&mut s).unwrap();
            let scn: Scenario = serde_json::from_str(&s).expect("scenario json");
            let r = runner::run_scenario(&scn);
            println!("{}", serde_json::json!({"t": "done", "i": 0, "out": r}));
            let _ = std::fs::remove_dir_all(runner::base_dir());
            if runner::ABANDONED.load(std::sync::atomic::Ordering::SeqCst) {
                let _ = std::io::stdout().flush();
                unsafe { libc::_exit(0) }
            }
        }
        "hashorder" => {
            // diagnostic: is std's HashSet iteration order inside a simulation a function of the seed?
            let seed: u64 = arg(&args, "--seed").unwrap_or_else(|| "1".into()).parse().unwrap();
            let cfg = simrt::SimConfig { seed, ..Default::default() };
            let (order, _sim) = simrt::run(cfg, || {
                let mut h = std::collections::HashSet::new();
                for i in 0..16u64 {
                    h.insert(i);
                }
                h.into_iter().collect::<Vec<u64>>()
            });
            println!("{:?} getrandom_calls={}", order, interpose::GETRANDOM_CALLS.load(std::sync::atomic::Ordering::Relaxed));
        }
        "gen" => {
            let check = arg(&args, "--check").unwrap();
            let tier = arg(&args, "--tier").unwrap_or_else(|| "quick".into());
            let seed: u64 = arg(&args, "--seed").unwrap_or_else(|| "1".into()).parse().unwrap();
            let index: u64 = arg(&args, "--index").unwrap_or_else(|| "0".into()).parse().unwrap();
            let rs = simrt::rng::run_seed(seed, &check, index);
            let scn = gen::generate(&check, &tier, rs);
            println!("{}", serde_json::to_string_pretty(&scn).unwrap());
        }
        "supervise" => {
            let code = supervisor::supervise(&args);
            std::process::exit(code);
        }
        "replay" => {
            let code = supervisor::replay(&args);
            std::process::exit(code);
        }
        "selftest" => {
            let code = supervisor::selftest(&args);
            std::process::exit(code);
        }
        _ => {
            eprintln!("usage: bcsim supervise|worker|one|replay|gen|selftest ...");
            let _ = std::io::stdin().lock().lines().next();
            std::process::exit(2);
        }
    }
}
