mod interpose;

use bytes::Bytes;
use bitcask::storage::{bitcask as bc, KeyValueStorage};
use simrt::{SimConfig, Strategy};

fn main() {
    let root = format!("/dev/shm/bcsim.{}/r0", std::process::id());
    std::fs::create_dir_all(format!("{}/s0", root)).unwrap();
    let root2 = root.clone();
    let cfg = SimConfig { seed: 7, strategy: Strategy::Random { per_mille: 100 }, ..Default::default() };
    let (out, sim) = simrt::run(cfg, move || {
        let (sim, _) = simrt::current().unwrap();
        simrt::fsim::set_root(sim, &root2);
        let mut conf = bc::Config::default();
        conf.path(format!("{}/s0", root2)).concurrency(2).max_file_size(100);
        let kv = conf.open().unwrap();
        let h = kv.get_handle();
        h.set(Bytes::from("k1"), Bytes::from("v1")).unwrap();
        h.set(Bytes::from("k2"), Bytes::from(vec![7u8; 9000])).unwrap();
        let g = h.get(Bytes::from("k1")).unwrap();
        h.del(Bytes::from("k1")).unwrap();
        h.verif_merge().unwrap();
        let d = h.verif_dump();
        drop(kv);
        (g, d)
    });
    println!("get => {:?}", out.0);
    println!("dump => active {} idx {} stats {:?}", out.1.active_fileid, out.1.index.len(), out.1.stats);
    simrt::fsim::with_fs(&sim, |fs| {
        for r in &fs.log {
            println!("{:>3} t{} {:?} {} fd={} a={} b={} res={} {}", r.seq, r.tid, r.op, fs.path_name(r.path), r.fd, r.a, r.b, r.res, r.what);
        }
        println!("discipline: {:?}", fs.discipline);
    });
    println!("threads: {:?}", sim.thread_names());
    println!("stats: {:?}", sim.stats());
    let _ = std::fs::remove_dir_all(format!("/dev/shm/bcsim.{}", std::process::id()));
}
