//! A small async executor whose workers and blocking threads are simulated threads.
//! Semantics follow tokio where the system under test can observe them: tasks are polled one
//! at a time, a panic in a task is contained and surfaces as `JoinError`, dropping the runtime
//! drops all tasks and waits for blocking threads.

use std::any::Any;
use std::cell::RefCell;
use std::collections::VecDeque;
use std::fmt;
use std::future::Future;
use std::pin::Pin;
use std::sync::atomic::{AtomicBool, AtomicU64, Ordering};
use std::sync::{Arc, Mutex as StdMutex, Weak};
use std::task::{Context, Poll, Wake, Waker};

use crate::sched::{self, current, Kind, SimJoinHandle, Why, DEFAULT_STACK};

#[derive(Default)]
pub struct ExecState {
    pub tasks_spawned: u64,
    pub blocking_spawned: u64,
    pub task_panics: u64,
}

static RT_IDS: AtomicU64 = AtomicU64::new(1);

fn lock<T>(m: &StdMutex<T>) -> std::sync::MutexGuard<'_, T> {
    m.lock().unwrap_or_else(|e| e.into_inner())
}

// ------------------------------------------------------------------------------------------
// JoinError / JoinHandle

pub struct JoinError {
    panic: Option<StdMutex<Box<dyn Any + Send + 'static>>>,
}

impl JoinError {
    pub fn cancelled() -> Self {
        JoinError { panic: None }
    }
    pub fn panic(p: Box<dyn Any + Send + 'static>) -> Self {
        JoinError { panic: Some(StdMutex::new(p)) }
    }
    pub fn is_cancelled(&self) -> bool {
        self.panic.is_none()
    }
    pub fn is_panic(&self) -> bool {
        self.panic.is_some()
    }
    pub fn into_panic(self) -> Box<dyn Any + Send + 'static> {
        self.panic.expect("not a panic").into_inner().unwrap_or_else(|e| e.into_inner())
    }
}

impl fmt::Debug for JoinError {
    fn fmt(&self, f: &mut fmt::Formatter<'_>) -> fmt::Result {
        if self.is_panic() {
            write!(f, "JoinError::Panic(...)")
        } else {
            write!(f, "JoinError::Cancelled")
        }
    }
}

impl fmt::Display for JoinError {
    fn fmt(&self, f: &mut fmt::Formatter<'_>) -> fmt::Result {
        if self.is_panic() {
            write!(f, "panic")
        } else {
            write!(f, "cancelled")
        }
    }
}

impl std::error::Error for JoinError {}

impl From<JoinError> for std::io::Error {
    fn from(e: JoinError) -> Self {
        std::io::Error::new(std::io::ErrorKind::Other, if e.is_panic() { "task panicked" } else { "task was cancelled" })
    }
}

struct JoinInner<T> {
    result: Option<Result<T, JoinError>>,
    waker: Option<Waker>,
}

pub struct JoinHandle<T> {
    inner: Arc<StdMutex<JoinInner<T>>>,
    task: Option<Weak<Task>>,
}

impl<T> Unpin for JoinHandle<T> {}

impl<T> JoinHandle<T> {
    pub fn abort(&self) {
        if let Some(t) = self.task.as_ref().and_then(|w| w.upgrade()) {
            t.cancel();
        }
    }
    pub fn is_finished(&self) -> bool {
        lock(&self.inner).result.is_some()
    }
}

impl<T> fmt::Debug for JoinHandle<T> {
    fn fmt(&self, f: &mut fmt::Formatter<'_>) -> fmt::Result {
        write!(f, "JoinHandle")
    }
}

impl<T> Future for JoinHandle<T> {
    type Output = Result<T, JoinError>;
    fn poll(self: Pin<&mut Self>, cx: &mut Context<'_>) -> Poll<Self::Output> {
        let mut g = lock(&self.inner);
        if let Some(r) = g.result.take() {
            Poll::Ready(r)
        } else {
            g.waker = Some(cx.waker().clone());
            Poll::Pending
        }
    }
}

fn complete<T>(inner: &Arc<StdMutex<JoinInner<T>>>, r: Result<T, JoinError>) {
    let w = {
        let mut g = lock(inner);
        if g.result.is_some() {
            return;
        }
        g.result = Some(r);
        g.waker.take()
    };
    if let Some(w) = w {
        w.wake();
    }
}

// ------------------------------------------------------------------------------------------
// tasks

#[derive(Clone, Copy, PartialEq, Eq, Debug)]
enum TaskState {
    Idle,
    Queued,
    Running,
    RunningNotified,
    Done,
}

type BoxFut = Pin<Box<dyn Future<Output = ()> + Send + 'static>>;

pub struct Task {
    fut: StdMutex<Option<BoxFut>>,
    state: StdMutex<TaskState>,
    rt: Weak<RuntimeInner>,
    on_fail: StdMutex<Option<Box<dyn FnOnce(JoinError) + Send>>>,
}

impl Task {
    fn cancel(&self) {
        let running = {
            let mut st = lock(&self.state);
            let r = matches!(*st, TaskState::Running | TaskState::RunningNotified);
            if !r {
                *st = TaskState::Done;
            }
            r
        };
        if running {
            // cannot drop a future that is being polled (by a parked thread); leave it
            return;
        }
        let f = lock(&self.fut).take();
        drop(f);
        if let Some(cb) = lock(&self.on_fail).take() {
            cb(JoinError::cancelled());
        }
    }
}

impl Wake for Task {
    fn wake(self: Arc<Self>) {
        self.wake_by_ref_impl();
    }
    fn wake_by_ref(self: &Arc<Self>) {
        self.wake_by_ref_impl();
    }
}

impl Task {
    fn wake_by_ref_impl(self: &Arc<Self>) {
        let push = {
            let mut st = lock(&self.state);
            match *st {
                TaskState::Idle => {
                    *st = TaskState::Queued;
                    true
                }
                TaskState::Running => {
                    *st = TaskState::RunningNotified;
                    false
                }
                _ => false,
            }
        };
        if push {
            if let Some(rt) = self.rt.upgrade() {
                rt.push(self.clone());
            }
        }
    }
}

pub struct RuntimeInner {
    pub id: u64,
    multi: bool,
    queue: StdMutex<VecDeque<Arc<Task>>>,
    idle: StdMutex<Vec<usize>>,
    shutdown: AtomicBool,
    owned: StdMutex<Vec<Weak<Task>>>,
    blocking: StdMutex<Vec<SimJoinHandle<()>>>,
    workers: StdMutex<Vec<SimJoinHandle<()>>>,
}

thread_local! {
    static CURRENT_RT: RefCell<Option<Arc<RuntimeInner>>> = const { RefCell::new(None) };
}

struct EnterGuard(Option<Arc<RuntimeInner>>);

fn enter(rt: &Arc<RuntimeInner>) -> EnterGuard {
    let prev = CURRENT_RT.with(|c| c.borrow_mut().replace(rt.clone()));
    EnterGuard(prev)
}

impl Drop for EnterGuard {
    fn drop(&mut self) {
        let prev = self.0.take();
        let _ = CURRENT_RT.try_with(|c| *c.borrow_mut() = prev);
    }
}

pub fn current_rt() -> Option<Arc<RuntimeInner>> {
    CURRENT_RT.try_with(|c| c.borrow().clone()).ok().flatten()
}

impl RuntimeInner {
    fn push(self: &Arc<Self>, t: Arc<Task>) {
        lock(&self.queue).push_back(t);
        self.notify_one();
    }

    fn notify_one(&self) {
        let tid = {
            let mut idle = lock(&self.idle);
            if idle.is_empty() {
                None
            } else {
                let i = match current() {
                    Some((sim, _)) => sim.sched_choice(idle.len()),
                    None => 0,
                };
                Some(idle.remove(i))
            }
        };
        if let (Some(tid), Some((sim, _))) = (tid, current()) {
            sim.wake_thread(tid);
            sim.note_progress();
        }
    }

    fn pick(&self) -> Option<Arc<Task>> {
        let mut q = lock(&self.queue);
        if q.is_empty() {
            return None;
        }
        let i = match current() {
            Some((sim, _)) => sim.sched_choice(q.len()),
            None => 0,
        };
        q.remove(i)
    }

    fn run_task(self: &Arc<Self>, task: Arc<Task>) {
        {
            let mut st = lock(&task.state);
            if *st != TaskState::Queued {
                return;
            }
            *st = TaskState::Running;
        }
        let waker = Waker::from(task.clone());
        let mut cx = Context::from_waker(&waker);
        let mut slot = lock(&task.fut);
        let res = match slot.as_mut() {
            None => Ok(Poll::Ready(())),
            Some(f) => std::panic::catch_unwind(std::panic::AssertUnwindSafe(|| f.as_mut().poll(&mut cx))),
        };
        match res {
            Ok(Poll::Pending) => {
                drop(slot);
                let requeue = {
                    let mut st = lock(&task.state);
                    if *st == TaskState::RunningNotified {
                        *st = TaskState::Queued;
                        true
                    } else {
                        *st = TaskState::Idle;
                        false
                    }
                };
                if requeue {
                    self.push(task);
                }
            }
            Ok(Poll::Ready(())) => {
                let f = slot.take();
                drop(slot);
                *lock(&task.state) = TaskState::Done;
                drop(f);
                lock(&task.on_fail).take();
            }
            Err(p) => {
                let f = slot.take();
                drop(slot);
                *lock(&task.state) = TaskState::Done;
                // dropping the future runs the destructors of everything the task owned,
                // as an unwinding tokio task does
                let _ = std::panic::catch_unwind(std::panic::AssertUnwindSafe(move || drop(f)));
                if let Some((sim, _)) = current() {
                    sim.probe("task_panic_contained");
                    lock(&sim.ext.exec).task_panics += 1;
                }
                if let Some(cb) = lock(&task.on_fail).take() {
                    cb(JoinError::panic(p));
                }
            }
        }
    }

    pub fn spawn<F>(self: &Arc<Self>, fut: F) -> JoinHandle<F::Output>
    where
        F: Future + Send + 'static,
        F::Output: Send + 'static,
    {
        let inner = Arc::new(StdMutex::new(JoinInner { result: None, waker: None }));
        let i2 = inner.clone();
        let i3 = inner.clone();
        let wrapped = async move {
            let out = fut.await;
            complete(&i2, Ok(out));
        };
        let task = Arc::new(Task {
            fut: StdMutex::new(Some(Box::pin(wrapped))),
            state: StdMutex::new(TaskState::Queued),
            rt: Arc::downgrade(self),
            on_fail: StdMutex::new(Some(Box::new(move |e| complete(&i3, Err(e))))),
        });
        {
            let mut owned = lock(&self.owned);
            if owned.len() >= 64 && owned.len() % 64 == 0 {
                owned.retain(|w| w.strong_count() > 0);
            }
            owned.push(Arc::downgrade(&task));
        }
        if let Some((sim, _)) = current() {
            lock(&sim.ext.exec).tasks_spawned += 1;
        }
        let weak = Arc::downgrade(&task);
        self.push(task);
        JoinHandle { inner, task: Some(weak) }
    }

    pub fn spawn_blocking<F, R>(self: &Arc<Self>, f: F) -> JoinHandle<R>
    where
        F: FnOnce() -> R + Send + 'static,
        R: Send + 'static,
    {
        let inner = Arc::new(StdMutex::new(JoinInner { result: None, waker: None }));
        let i2 = inner.clone();
        let rt = self.clone();
        if let Some((sim, _)) = current() {
            lock(&sim.ext.exec).blocking_spawned += 1;
        }
        let h = sched::spawn("tokio-blocking", DEFAULT_STACK, move || {
            let _g = enter(&rt);
            let r = std::panic::catch_unwind(std::panic::AssertUnwindSafe(f));
            drop(_g);
            drop(rt);
            match r {
                Ok(v) => complete(&i2, Ok(v)),
                Err(p) => {
                    sched::probe("blocking_panic_contained");
                    complete(&i2, Err(JoinError::panic(p)))
                }
            }
        });
        let mut b = lock(&self.blocking);
        // reap finished ones
        let mut keep = Vec::new();
        for jh in b.drain(..) {
            if jh.is_finished() {
                let _ = jh.join();
            } else {
                keep.push(jh);
            }
        }
        *b = keep;
        b.push(h);
        JoinHandle { inner, task: None }
    }

    fn worker_loop(self: Arc<Self>) {
        let (sim, me) = current().expect("worker outside sim");
        let _g = enter(&self);
        loop {
            sim.yield_point(me, Kind::TaskPoll, false);
            match self.pick() {
                Some(t) => self.run_task(t),
                None => {
                    if self.shutdown.load(Ordering::Acquire) {
                        break;
                    }
                    lock(&self.idle).push(me);
                    sim.block(me, Why::IdleWorker(self.id));
                    lock(&self.idle).retain(|t| *t != me);
                }
            }
        }
    }

    pub fn block_on<F: Future>(self: &Arc<Self>, fut: F) -> F::Output {
        let (sim, me) = current().expect("block_on outside a simulation");
        let _g = enter(self);
        let mut fut = std::pin::pin!(fut);
        let tw = Arc::new(ThreadWaker { tid: me, notified: AtomicBool::new(true) });
        let waker = Waker::from(tw.clone());
        let mut cx = Context::from_waker(&waker);
        loop {
            if tw.notified.swap(false, Ordering::AcqRel) {
                sim.yield_point(me, Kind::TaskPoll, false);
                if let Poll::Ready(v) = fut.as_mut().poll(&mut cx) {
                    return v;
                }
            }
            if !self.multi {
                let mut ran = false;
                while let Some(t) = self.pick() {
                    ran = true;
                    sim.yield_point(me, Kind::TaskPoll, false);
                    self.run_task(t);
                    if tw.notified.load(Ordering::Acquire) {
                        break;
                    }
                }
                if ran {
                    continue;
                }
            }
            if tw.notified.load(Ordering::Acquire) {
                continue;
            }
            if !self.multi {
                lock(&self.idle).push(me);
            }
            sim.block(me, Why::BlockOn);
            if !self.multi {
                lock(&self.idle).retain(|t| *t != me);
            }
        }
    }

    fn shutdown_now(self: &Arc<Self>) {
        self.shutdown.store(true, Ordering::Release);
        // stop workers
        let idle: Vec<usize> = lock(&self.idle).drain(..).collect();
        if let Some((sim, _)) = current() {
            for t in idle {
                sim.wake_thread(t);
            }
        }
        let workers: Vec<_> = lock(&self.workers).drain(..).collect();
        for w in workers {
            let _ = w.join();
        }
        // drop every task that is still alive
        lock(&self.queue).clear();
        let owned: Vec<_> = lock(&self.owned).drain(..).collect();
        for w in owned {
            if let Some(t) = w.upgrade() {
                t.cancel();
            }
        }
        // wait for blocking threads
        let blocking: Vec<_> = lock(&self.blocking).drain(..).collect();
        for b in blocking {
            let _ = b.join();
        }
    }

    pub fn alive_tasks(&self) -> usize {
        lock(&self.owned)
            .iter()
            .filter(|w| match w.upgrade() {
                Some(t) => *lock(&t.state) != TaskState::Done,
                None => false,
            })
            .count()
    }
}

struct ThreadWaker {
    tid: usize,
    notified: AtomicBool,
}

impl Wake for ThreadWaker {
    fn wake(self: Arc<Self>) {
        self.wake_by_ref()
    }
    fn wake_by_ref(self: &Arc<Self>) {
        self.notified.store(true, Ordering::Release);
        if let Some((sim, _)) = current() {
            sim.wake_thread(self.tid);
            sim.note_progress();
        }
    }
}

// ------------------------------------------------------------------------------------------
// public runtime types (re-exported by the tokio facade)

pub struct Builder {
    multi: bool,
    workers: Option<usize>,
}

impl Builder {
    pub fn new_current_thread() -> Self {
        Builder { multi: false, workers: None }
    }
    pub fn new_multi_thread() -> Self {
        Builder { multi: true, workers: None }
    }
    pub fn enable_all(&mut self) -> &mut Self {
        self
    }
    pub fn enable_io(&mut self) -> &mut Self {
        self
    }
    pub fn enable_time(&mut self) -> &mut Self {
        self
    }
    pub fn worker_threads(&mut self, n: usize) -> &mut Self {
        self.workers = Some(n.max(1));
        self
    }
    pub fn thread_name(&mut self, _n: impl Into<String>) -> &mut Self {
        self
    }
    pub fn max_blocking_threads(&mut self, _n: usize) -> &mut Self {
        self
    }
    pub fn build(&mut self) -> std::io::Result<Runtime> {
        let inner = Arc::new(RuntimeInner {
            id: RT_IDS.fetch_add(1, Ordering::Relaxed),
            multi: self.multi,
            queue: StdMutex::new(VecDeque::new()),
            idle: StdMutex::new(Vec::new()),
            shutdown: AtomicBool::new(false),
            owned: StdMutex::new(Vec::new()),
            blocking: StdMutex::new(Vec::new()),
            workers: StdMutex::new(Vec::new()),
        });
        if self.multi {
            let n = self.workers.unwrap_or_else(|| match current() {
                Some((sim, _)) => sim.cfg.num_cpus.max(1),
                None => 1,
            });
            for i in 0..n {
                let rt = inner.clone();
                let h = sched::spawn(&format!("tokio-worker-{}", i), DEFAULT_STACK, move || rt.worker_loop());
                lock(&inner.workers).push(h);
            }
        }
        Ok(Runtime { inner })
    }
}

pub struct Runtime {
    inner: Arc<RuntimeInner>,
}

impl Runtime {
    pub fn new() -> std::io::Result<Runtime> {
        Builder::new_multi_thread().build()
    }
    pub fn spawn<F>(&self, fut: F) -> JoinHandle<F::Output>
    where
        F: Future + Send + 'static,
        F::Output: Send + 'static,
    {
        self.inner.spawn(fut)
    }
    pub fn spawn_blocking<F, R>(&self, f: F) -> JoinHandle<R>
    where
        F: FnOnce() -> R + Send + 'static,
        R: Send + 'static,
    {
        self.inner.spawn_blocking(f)
    }
    pub fn block_on<F: Future>(&self, fut: F) -> F::Output {
        self.inner.block_on(fut)
    }
    pub fn handle(&self) -> Handle {
        Handle { inner: self.inner.clone() }
    }
    pub fn enter(&self) -> impl Drop + '_ {
        enter(&self.inner)
    }
    pub fn inner(&self) -> &Arc<RuntimeInner> {
        &self.inner
    }
    pub fn shutdown_background(self) {}
}

impl Drop for Runtime {
    fn drop(&mut self) {
        self.inner.shutdown_now();
    }
}

impl fmt::Debug for Runtime {
    fn fmt(&self, f: &mut fmt::Formatter<'_>) -> fmt::Result {
        write!(f, "Runtime({})", self.inner.id)
    }
}

#[derive(Clone)]
pub struct Handle {
    inner: Arc<RuntimeInner>,
}

impl Handle {
    pub fn current() -> Handle {
        Handle { inner: current_rt().expect("there is no reactor running, must be called from the context of a Tokio 1.x runtime") }
    }
    pub fn try_current() -> Result<Handle, ()> {
        current_rt().map(|inner| Handle { inner }).ok_or(())
    }
    pub fn spawn<F>(&self, fut: F) -> JoinHandle<F::Output>
    where
        F: Future + Send + 'static,
        F::Output: Send + 'static,
    {
        self.inner.spawn(fut)
    }
    pub fn spawn_blocking<F, R>(&self, f: F) -> JoinHandle<R>
    where
        F: FnOnce() -> R + Send + 'static,
        R: Send + 'static,
    {
        self.inner.spawn_blocking(f)
    }
    pub fn block_on<F: Future>(&self, fut: F) -> F::Output {
        self.inner.block_on(fut)
    }
}

pub fn spawn<F>(fut: F) -> JoinHandle<F::Output>
where
    F: Future + Send + 'static,
    F::Output: Send + 'static,
{
    current_rt()
        .expect("there is no reactor running, must be called from the context of a Tokio 1.x runtime")
        .spawn(fut)
}

pub fn spawn_blocking<F, R>(f: F) -> JoinHandle<R>
where
    F: FnOnce() -> R + Send + 'static,
    R: Send + 'static,
{
    current_rt()
        .expect("there is no reactor running, must be called from the context of a Tokio 1.x runtime")
        .spawn_blocking(f)
}

/// `tokio::task::yield_now`
pub async fn yield_now() {
    struct Y(bool);
    impl Future for Y {
        type Output = ();
        fn poll(mut self: Pin<&mut Self>, cx: &mut Context<'_>) -> Poll<()> {
            if self.0 {
                Poll::Ready(())
            } else {
                self.0 = true;
                cx.waker().wake_by_ref();
                Poll::Pending
            }
        }
    }
    Y(false).await
}
