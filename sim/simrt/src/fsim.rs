//! File-system seam: the libc interposer (in the harness binary) calls these hooks for every
//! call that concerns the run's tracked directory. Each tracked call is a scheduling point, a
//! record in the I/O log, a fault point, and an update of the in-memory shadow from which crash
//! and power-loss images are constructed.

use std::cell::Cell;
use std::collections::BTreeMap;

use crate::sched::{current, suspended, Kind, Sim};

thread_local! {
    /// workload operation index the calling thread is executing (harness-set)
    static OP_TAG: Cell<u64> = const { Cell::new(0) };
    static CLIENT_THREAD: Cell<bool> = const { Cell::new(false) };
}

/// Mark the calling thread as a client thread of the harness (as opposed to a thread the code
/// under test started itself: its background worker and the blocking threads of that worker).
pub fn mark_client_thread() {
    let _ = CLIENT_THREAD.try_with(|c| c.set(true));
}
pub fn is_client_thread() -> bool {
    CLIENT_THREAD.try_with(|c| c.get()).unwrap_or(false)
}
pub fn set_op_tag(t: u64) {
    let _ = OP_TAG.try_with(|c| c.set(t));
}
pub fn op_tag() -> u64 {
    OP_TAG.try_with(|c| c.get()).unwrap_or(0)
}

#[derive(Clone, Copy, Debug, PartialEq, Eq, PartialOrd, Ord, Hash)]
pub enum IoOp {
    Create,
    OpenRead,
    OpenWriteExisting,
    Write,
    Fsync,
    Unlink,
    Close,
    Mmap,
    Stat,
    /// `read` on a store file (startup scans)
    Read,
    /// `opendir` of a store directory
    OpenDir,
    /// calls that must never touch a store file (C14): value says which
    Forbidden,
    Adopt,
}

#[derive(Clone, Debug)]
pub struct IoRec {
    pub seq: u64,
    pub tid: usize,
    pub now: u64,
    pub step: u64,
    pub op: IoOp,
    pub path: u32,
    pub fd: i32,
    /// Write: offset in file; Create/Open: flags; Forbidden: -
    pub a: u64,
    /// Write: bytes requested
    pub b: u64,
    /// result: bytes written / fd / 0, or -errno
    pub res: i64,
    pub injected: bool,
    pub tag: u64,
    pub what: &'static str,
}

#[derive(Clone, Debug, Default)]
pub struct FileInc {
    pub path: u32,
    pub data: Vec<u8>,
    pub created_seq: u64,
    pub unlinked_seq: Option<u64>,
    /// (seq, length after that write)
    pub lens: Vec<(u64, u64)>,
    /// (seq, length covered by that completed fsync)
    pub syncs: Vec<(u64, u64)>,
    pub creator_fd: i32,
    pub creator_open: bool,
    pub adopted: bool,
}

#[derive(Clone, Debug)]
pub struct FdInfo {
    pub inc: usize,
    pub writable: bool,
    pub append: bool,
    pub created_here: bool,
    pub pending_errno: Option<i32>,
}

#[derive(Clone, Debug, Default)]
pub struct LegalFaults {
    pub short_write_per_mille: u32,
    pub eintr_per_mille: u32,
    pub latency_per_mille: u32,
    pub max_latency_ns: u64,
}

#[derive(Clone, Copy, Debug, PartialEq, Eq)]
pub enum FailMode {
    /// the call fails, nothing happens
    Clean,
    /// (write only) a prefix is written now, the error comes on the next write to that fd
    ShortThenError,
}

#[derive(Clone, Debug)]
pub struct FaultSpec {
    /// 1-based index among the faultable calls of the run
    pub nth: u64,
    pub errno: i32,
    pub mode: FailMode,
    /// an episode instead of a single failure: this many FURTHER faultable calls fail after the
    /// `nth` one (0 = one transient failure)
    pub extra: u32,
    /// the episode is a full disk: only calls that need space (write, create) fail, with the
    /// same errno; fsync, unlink and the read side keep working. Otherwise every faultable call
    /// of the episode fails with EIO.
    pub space_only: bool,
    /// only calls made by threads that the code under test started itself can fail (its
    /// background worker); calls of client threads are neither counted nor failed
    pub background_only: bool,
}

#[derive(Clone, Debug)]
pub struct FiredFault {
    pub seq: u64,
    pub op: IoOp,
    pub path: u32,
    pub errno: i32,
    pub tag: u64,
    pub tid: usize,
    pub short: Option<u64>,
    pub index: u64,
}

#[derive(Default)]
pub struct FsState {
    pub root: Option<Vec<u8>>,
    pub paths: Vec<String>,
    pub path_ids: BTreeMap<String, u32>,
    pub fds: BTreeMap<i32, FdInfo>,
    pub incs: Vec<FileInc>,
    pub by_path: BTreeMap<u32, Vec<usize>>,
    pub log: Vec<IoRec>,
    pub seq: u64,
    pub legal: LegalFaults,
    pub fault: Option<FaultSpec>,
    pub fault_reads: bool,
    pub faultable_seen: u64,
    /// failures still owed by the running episode (see `FaultSpec::extra`)
    pub burst_left: u32,
    pub fired: Vec<FiredFault>,
    pub legal_fired: BTreeMap<&'static str, u64>,
    pub discipline: Vec<String>,
    pub frozen: bool,
}

fn lock(sim: &Sim) -> std::sync::MutexGuard<'_, FsState> {
    sim.ext.fs.lock().unwrap_or_else(|e| e.into_inner())
}

impl FsState {
    pub fn path_id(&mut self, rel: &str) -> u32 {
        if let Some(i) = self.path_ids.get(rel) {
            return *i;
        }
        let i = self.paths.len() as u32;
        self.paths.push(rel.to_string());
        self.path_ids.insert(rel.to_string(), i);
        i
    }

    pub fn path_name(&self, id: u32) -> &str {
        &self.paths[id as usize]
    }

    fn rel(&self, path: &[u8]) -> Option<String> {
        let root = self.root.as_ref()?;
        if path.len() > root.len() && path.starts_with(root) {
            Some(String::from_utf8_lossy(&path[root.len()..]).into_owned())
        } else {
            None
        }
    }

    /// current (latest, not unlinked) incarnation of a path
    pub fn live_inc(&self, pid: u32) -> Option<usize> {
        let v = self.by_path.get(&pid)?;
        let last = *v.last()?;
        if self.incs[last].unlinked_seq.is_none() {
            Some(last)
        } else {
            None
        }
    }

    fn push(&mut self, sim_now: u64, step: u64, tid: usize, op: IoOp, path: u32, fd: i32, a: u64, b: u64, res: i64, injected: bool, what: &'static str) -> u64 {
        self.seq += 1;
        let seq = self.seq;
        self.log.push(IoRec { seq, tid, now: sim_now, step, op, path, fd, a, b, res, injected, tag: op_tag(), what });
        seq
    }

    /// Register a file that exists on disk before tracking saw it (materialised image).
    pub fn adopt(&mut self, rel: &str, data: Vec<u8>, synced: u64) {
        let pid = self.path_id(rel);
        self.seq += 1;
        let seq = self.seq;
        self.log.push(IoRec { seq, tid: 0, now: 0, step: 0, op: IoOp::Adopt, path: pid, fd: -1, a: 0, b: data.len() as u64, res: 0, injected: false, tag: op_tag(), what: "adopt" });
        let len = data.len() as u64;
        let inc = FileInc {
            path: pid,
            data,
            created_seq: seq,
            unlinked_seq: None,
            lens: vec![(seq, len)],
            syncs: vec![(seq, synced.min(len))],
            creator_fd: -1,
            creator_open: false,
            adopted: true,
        };
        self.incs.push(inc);
        let idx = self.incs.len() - 1;
        self.by_path.entry(pid).or_default().push(idx);
    }

    /// Files of directory `dir` (relative, without trailing slash) as they are after record
    /// `k` (`k == u64::MAX`: now): (file name, written length, synced length, incarnation).
    pub fn image_at(&self, dir: &str, k: u64) -> Vec<(String, u64, u64, usize)> {
        let prefix = format!("{}/", dir);
        let mut out = Vec::new();
        for (i, inc) in self.incs.iter().enumerate() {
            let name = &self.paths[inc.path as usize];
            if !name.starts_with(&prefix) {
                continue;
            }
            if inc.created_seq > k {
                continue;
            }
            if let Some(u) = inc.unlinked_seq {
                if u <= k {
                    continue;
                }
            }
            let len = inc.lens.iter().rev().find(|(s, _)| *s <= k).map(|(_, l)| *l).unwrap_or(0);
            let synced = inc.syncs.iter().rev().find(|(s, _)| *s <= k).map(|(_, l)| *l).unwrap_or(0);
            out.push((name[prefix.len()..].to_string(), len, synced.min(len), i));
        }
        out
    }
}

fn tracked() -> Option<(&'static Sim, usize)> {
    if suspended() {
        return None;
    }
    current()
}

fn decide_latency(sim: &Sim, me: usize) {
    let (pm, max) = {
        let fs = lock(sim);
        (fs.legal.latency_per_mille, fs.legal.max_latency_ns)
    };
    if pm == 0 || max == 0 {
        return;
    }
    let ns = sim.with_stream("disk", |r| if r.below(1000) < pm as u64 { 1_000 + r.below(max) } else { 0 });
    if ns > 0 {
        *lock(sim).legal_fired.entry("latency").or_insert(0) += 1;
        sim.sleep_thread(me, ns);
    }
}

/// Should this faultable call fail? Counts it. Returns the spec when it is the chosen one.
fn take_fault(fs: &mut FsState, op: IoOp) -> Option<FaultSpec> {
    if matches!(&fs.fault, Some(f) if f.background_only) && is_client_thread() {
        return None;
    }
    fs.faultable_seen += 1;
    match &fs.fault {
        Some(f) if f.nth == fs.faultable_seen => {
            fs.burst_left = f.extra;
            Some(f.clone())
        }
        Some(f) if fs.burst_left > 0 && fs.faultable_seen > f.nth => {
            let needs_space = matches!(op, IoOp::Write | IoOp::Create | IoOp::OpenWriteExisting);
            if f.space_only && !needs_space {
                return None;
            }
            let mut g = f.clone();
            g.mode = FailMode::Clean;
            if !f.space_only {
                g.errno = libc::EIO;
            }
            fs.burst_left -= 1;
            Some(g)
        }
        _ => None,
    }
}

fn legal_chance(sim: &Sim, which: &'static str) -> bool {
    let pm = {
        let fs = lock(sim);
        match which {
            "short_write" => fs.legal.short_write_per_mille,
            _ => fs.legal.eintr_per_mille,
        }
    };
    if pm == 0 {
        return false;
    }
    let hit = sim.with_stream("disk", |r| r.below(1000) < pm as u64);
    if hit {
        *lock(sim).legal_fired.entry(which).or_insert(0) += 1;
    }
    hit
}

const O_ACCMODE: i32 = 3;

/// `open`/`open64`/`openat(AT_FDCWD)`. `real` performs the call and returns fd or -errno.
pub fn hook_open(path: &[u8], flags: i32, real: impl FnOnce() -> i64) -> i64 {
    let (sim, me) = match tracked() {
        Some(x) => x,
        None => return real(),
    };
    let rel = match lock(sim).rel(path) {
        Some(r) => r,
        None => return real(),
    };
    let wants_write = (flags & O_ACCMODE) != libc::O_RDONLY;
    let creates = flags & libc::O_CREAT != 0;
    if flags & libc::O_DIRECTORY != 0 {
        return real();
    }
    let kind = if wants_write || creates { Kind::IoCreate } else { Kind::IoOpenRead };
    sim.yield_point(me, kind, true);
    decide_latency(sim, me);
    let now = sim.now_ns();
    let step = sim.step();
    let op = if creates { IoOp::Create } else if wants_write { IoOp::OpenWriteExisting } else { IoOp::OpenRead };
    // faults
    {
        let mut fs = lock(sim);
        if fs.frozen {
            drop(fs);
            return real();
        }
        let pid = fs.path_id(&rel);
        let faultable = op != IoOp::OpenRead || fs.fault_reads;
        if faultable {
            if let Some(f) = take_fault(&mut fs, op) {
                let seq = fs.push(now, step, me, op, pid, -1, flags as u64, 0, -(f.errno as i64), true, "open");
                let idx = fs.faultable_seen;
                fs.fired.push(FiredFault { seq, op, path: pid, errno: f.errno, tag: op_tag(), tid: me, short: None, index: idx });
                return -(f.errno as i64);
            }
        }
    }
    if legal_chance(sim, "eintr") {
        let mut fs = lock(sim);
        let pid = fs.path_id(&rel);
        fs.push(now, step, me, op, pid, -1, flags as u64, 0, -(libc::EINTR as i64), true, "open-eintr");
        return -(libc::EINTR as i64);
    }
    let r = real();
    let mut fs = lock(sim);
    let pid = fs.path_id(&rel);
    let seq = fs.push(now, step, me, op, pid, r as i32, flags as u64, 0, r, false, "open");
    if r >= 0 {
        let fd = r as i32;
        match op {
            IoOp::Create => {
                let existed = fs.live_inc(pid);
                let excl = flags & libc::O_EXCL != 0;
                let append = flags & libc::O_APPEND != 0;
                let trunc = flags & libc::O_TRUNC != 0;
                // exclusive creation is what the property asks for; O_APPEND is one way of
                // extending at the end only (writes of a non-append descriptor are checked
                // against the end of file one by one)
                if !excl || trunc {
                    let m = format!("file {} opened for writing with flags {:#o} (needs exclusive creation: O_CREAT|O_EXCL, no O_TRUNC)", rel, flags);
                    fs.discipline.push(m);
                }
                let inc_idx = match existed {
                    Some(i) => {
                        // O_CREAT on an existing file: it was re-opened for writing
                        let m = format!("existing file {} re-opened for writing", rel);
                        fs.discipline.push(m);
                        if trunc {
                            fs.incs[i].data.clear();
                            fs.incs[i].lens.push((seq, 0));
                        }
                        i
                    }
                    None => {
                        fs.incs.push(FileInc {
                            path: pid,
                            data: Vec::new(),
                            created_seq: seq,
                            unlinked_seq: None,
                            lens: vec![(seq, 0)],
                            syncs: Vec::new(),
                            creator_fd: fd,
                            creator_open: true,
                            adopted: false,
                        });
                        let idx = fs.incs.len() - 1;
                        fs.by_path.entry(pid).or_default().push(idx);
                        idx
                    }
                };
                fs.fds.insert(fd, FdInfo { inc: inc_idx, writable: true, append, created_here: existed.is_none(), pending_errno: None });
            }
            IoOp::OpenWriteExisting => {
                let m = format!("existing file {} opened for writing (flags {:#o})", rel, flags);
                fs.discipline.push(m);
                if let Some(i) = fs.live_inc(pid) {
                    if flags & libc::O_TRUNC != 0 {
                        fs.incs[i].data.clear();
                        fs.incs[i].lens.push((seq, 0));
                    }
                    fs.fds.insert(fd, FdInfo { inc: i, writable: true, append: flags & libc::O_APPEND != 0, created_here: false, pending_errno: None });
                }
            }
            _ => {
                if let Some(i) = fs.live_inc(pid) {
                    fs.fds.insert(fd, FdInfo { inc: i, writable: false, append: false, created_here: false, pending_errno: None });
                }
            }
        }
    }
    r
}

/// `write`. `real(buf)` performs it; `pos()` returns the fd's current offset (for the rare
/// non-append fd).
pub fn hook_write(fd: i32, buf: &[u8], real: impl FnOnce(&[u8]) -> i64, pos: impl FnOnce() -> i64) -> i64 {
    let (sim, me) = match tracked() {
        Some(x) => x,
        None => return real(buf),
    };
    let info = match lock(sim).fds.get(&fd) {
        Some(i) => i.clone(),
        None => return real(buf),
    };
    if lock(sim).frozen {
        return real(buf);
    }
    sim.yield_point(me, Kind::IoWrite, true);
    decide_latency(sim, me);
    let now = sim.now_ns();
    let step = sim.step();
    let pid = lock(sim).incs[info.inc].path;
    // deferred error from an earlier short write
    {
        let mut fs = lock(sim);
        let pending = fs.fds.get_mut(&fd).and_then(|i| i.pending_errno.take());
        if let Some(e) = pending {
            fs.push(now, step, me, IoOp::Write, pid, fd, 0, buf.len() as u64, -(e as i64), true, "write-deferred-error");
            return -(e as i64);
        }
    }
    let mut limit = buf.len();
    {
        let mut fs = lock(sim);
        if let Some(f) = take_fault(&mut fs, IoOp::Write) {
            let idx = fs.faultable_seen;
            match f.mode {
                FailMode::Clean => {
                    let seq = fs.push(now, step, me, IoOp::Write, pid, fd, 0, buf.len() as u64, -(f.errno as i64), true, "write");
                    fs.fired.push(FiredFault { seq, op: IoOp::Write, path: pid, errno: f.errno, tag: op_tag(), tid: me, short: None, index: idx });
                    return -(f.errno as i64);
                }
                FailMode::ShortThenError => {
                    if buf.len() >= 2 {
                        limit = 1 + sim.with_stream("disk", |r| r.usize_below(buf.len() - 1));
                        if let Some(i) = fs.fds.get_mut(&fd) {
                            i.pending_errno = Some(f.errno);
                        }
                        let seq = fs.seq + 1;
                        fs.fired.push(FiredFault { seq, op: IoOp::Write, path: pid, errno: f.errno, tag: op_tag(), tid: me, short: Some(limit as u64), index: idx });
                    } else {
                        let seq = fs.push(now, step, me, IoOp::Write, pid, fd, 0, buf.len() as u64, -(f.errno as i64), true, "write");
                        fs.fired.push(FiredFault { seq, op: IoOp::Write, path: pid, errno: f.errno, tag: op_tag(), tid: me, short: None, index: idx });
                        return -(f.errno as i64);
                    }
                }
            }
        }
    }
    if limit == buf.len() {
        if legal_chance(sim, "eintr") {
            let mut fs = lock(sim);
            fs.push(now, step, me, IoOp::Write, pid, fd, 0, buf.len() as u64, -(libc::EINTR as i64), true, "write-eintr");
            return -(libc::EINTR as i64);
        }
        if buf.len() >= 2 && legal_chance(sim, "short_write") {
            limit = 1 + sim.with_stream("disk", |r| r.usize_below(buf.len() - 1));
        }
    }
    let off = if info.append { -1 } else { pos() };
    let r = real(&buf[..limit]);
    let mut fs = lock(sim);
    let inc = info.inc;
    let before = fs.incs[inc].data.len() as u64;
    let at = if info.append || off < 0 { before } else { off as u64 };
    let seq = fs.push(now, step, me, IoOp::Write, pid, fd, at, buf.len() as u64, r, limit != buf.len(), "write");
    if r > 0 {
        let n = r as usize;
        if !info.append && at != before {
            let m = format!("write to {} at offset {} while the file is {} bytes long (not an append)", fs.paths[pid as usize], at, before);
            fs.discipline.push(m);
            let end = at as usize + n;
            if fs.incs[inc].data.len() < end {
                fs.incs[inc].data.resize(end, 0);
            }
            fs.incs[inc].data[at as usize..end].copy_from_slice(&buf[..n]);
        } else {
            fs.incs[inc].data.extend_from_slice(&buf[..n]);
        }
        if !info.created_here {
            let m = format!("write to {} through a descriptor that did not create it", fs.paths[pid as usize]);
            fs.discipline.push(m);
        }
        let l = fs.incs[inc].data.len() as u64;
        fs.incs[inc].lens.push((seq, l));
    }
    r
}

pub fn hook_fsync(fd: i32, real: impl FnOnce() -> i64) -> i64 {
    let (sim, me) = match tracked() {
        Some(x) => x,
        None => return real(),
    };
    let info = match lock(sim).fds.get(&fd) {
        Some(i) => i.clone(),
        None => return real(),
    };
    if lock(sim).frozen {
        return real();
    }
    sim.yield_point(me, Kind::IoFsync, true);
    decide_latency(sim, me);
    let now = sim.now_ns();
    let step = sim.step();
    let pid = lock(sim).incs[info.inc].path;
    {
        let mut fs = lock(sim);
        if let Some(f) = take_fault(&mut fs, IoOp::Fsync) {
            let idx = fs.faultable_seen;
            let seq = fs.push(now, step, me, IoOp::Fsync, pid, fd, 0, 0, -(f.errno as i64), true, "fsync");
            fs.fired.push(FiredFault { seq, op: IoOp::Fsync, path: pid, errno: f.errno, tag: op_tag(), tid: me, short: None, index: idx });
            return -(f.errno as i64);
        }
    }
    if legal_chance(sim, "eintr") {
        let mut fs = lock(sim);
        fs.push(now, step, me, IoOp::Fsync, pid, fd, 0, 0, -(libc::EINTR as i64), true, "fsync-eintr");
        return -(libc::EINTR as i64);
    }
    // tmpfs: nothing to force; skip the real call's cost but keep its semantics
    let r = real();
    let mut fs = lock(sim);
    let seq = fs.push(now, step, me, IoOp::Fsync, pid, fd, 0, 0, r, false, "fsync");
    if r >= 0 {
        let l = fs.incs[info.inc].data.len() as u64;
        fs.incs[info.inc].syncs.push((seq, l));
    }
    r
}

pub fn hook_unlink(path: &[u8], real: impl FnOnce() -> i64) -> i64 {
    let (sim, me) = match tracked() {
        Some(x) => x,
        None => return real(),
    };
    let rel = match lock(sim).rel(path) {
        Some(r) => r,
        None => return real(),
    };
    if lock(sim).frozen {
        return real();
    }
    sim.yield_point(me, Kind::IoUnlink, true);
    decide_latency(sim, me);
    let now = sim.now_ns();
    let step = sim.step();
    {
        let mut fs = lock(sim);
        let pid = fs.path_id(&rel);
        // an unlink of a path that does not exist is not a faultable call of interest: it
        // fails with ENOENT by itself
        if fs.live_inc(pid).is_some() {
            if let Some(f) = take_fault(&mut fs, IoOp::Unlink) {
                let idx = fs.faultable_seen;
                let seq = fs.push(now, step, me, IoOp::Unlink, pid, -1, 0, 0, -(f.errno as i64), true, "unlink");
                fs.fired.push(FiredFault { seq, op: IoOp::Unlink, path: pid, errno: f.errno, tag: op_tag(), tid: me, short: None, index: idx });
                return -(f.errno as i64);
            }
        }
    }
    let r = real();
    let mut fs = lock(sim);
    let pid = fs.path_id(&rel);
    let seq = fs.push(now, step, me, IoOp::Unlink, pid, -1, 0, 0, r, false, "unlink");
    if r >= 0 {
        if let Some(i) = fs.live_inc(pid) {
            fs.incs[i].unlinked_seq = Some(seq);
        }
    }
    r
}

pub fn hook_close(fd: i32, real: impl FnOnce() -> i64) -> i64 {
    let (sim, _me) = match tracked() {
        Some(x) => x,
        None => {
            // a tracked fd closed by an untracked context must still leave the table
            if let Some((sim, _)) = current() {
                let mut fs = lock(sim);
                if let Some(i) = fs.fds.remove(&fd) {
                    if i.created_here {
                        fs.incs[i.inc].creator_open = false;
                    }
                }
            }
            return real();
        }
    };
    let info = lock(sim).fds.remove(&fd);
    let r = real();
    if let Some(i) = info {
        let mut fs = lock(sim);
        if fs.frozen {
            return r;
        }
        let now = 0;
        let pid = fs.incs[i.inc].path;
        if i.created_here {
            fs.incs[i.inc].creator_open = false;
        }
        fs.push(now, 0, _me, IoOp::Close, pid, fd, 0, 0, r, false, "close");
    }
    r
}

/// A read-side call on a tracked fd or path (`mmap`, `fstat`, `statx`): scheduling point and,
/// when read faults are enabled, fault point.
pub fn hook_read_side(op: IoOp, fd: i32, path: Option<&[u8]>, fail_errnos_ok: bool, real: impl FnOnce() -> i64) -> i64 {
    let (sim, me) = match tracked() {
        Some(x) => x,
        None => return real(),
    };
    let pid = {
        let mut fs = lock(sim);
        if fs.frozen {
            drop(fs);
            return real();
        }
        if let Some(p) = path {
            match fs.rel(p) {
                Some(r) => Some(fs.path_id(&r)),
                None => None,
            }
        } else {
            fs.fds.get(&fd).map(|i| i.inc).map(|inc| fs.incs[inc].path)
        }
    };
    let pid = match pid {
        Some(p) => p,
        None => return real(),
    };
    let kind = match op {
        IoOp::Mmap => Kind::IoMmap,
        IoOp::Read | IoOp::OpenDir => Kind::IoOther,
        _ => Kind::IoStat,
    };
    sim.yield_point(me, kind, false);
    let now = sim.now_ns();
    let step = sim.step();
    {
        let mut fs = lock(sim);
        if fs.fault_reads && fail_errnos_ok {
            if let Some(f) = take_fault(&mut fs, op) {
                let idx = fs.faultable_seen;
                let seq = fs.push(now, step, me, op, pid, fd, 0, 0, -(f.errno as i64), true, "read-side");
                fs.fired.push(FiredFault { seq, op, path: pid, errno: f.errno, tag: op_tag(), tid: me, short: None, index: idx });
                return -(f.errno as i64);
            }
        }
    }
    let r = real();
    let mut fs = lock(sim);
    fs.push(now, step, me, op, pid, fd, 0, 0, r, false, "read-side");
    r
}

/// Is this descriptor one of the run's store files (opened through `hook_open` by a simulated
/// thread, shadow not frozen)?
pub fn is_store_fd(fd: i32) -> bool {
    match tracked() {
        Some((sim, _)) => {
            let fs = lock(sim);
            !fs.frozen && fs.fds.contains_key(&fd)
        }
        None => false,
    }
}

/// A call that must never be applied to a store file (C14). It is executed, and recorded as
/// a breach of the file discipline.
pub fn hook_forbidden(what: &'static str, fd: i32, path: Option<&[u8]>, real: impl FnOnce() -> i64) -> i64 {
    let (sim, me) = match tracked() {
        Some(x) => x,
        None => return real(),
    };
    let pid = {
        let mut fs = lock(sim);
        if fs.frozen {
            drop(fs);
            return real();
        }
        if let Some(p) = path {
            match fs.rel(p) {
                Some(r) => Some(fs.path_id(&r)),
                None => None,
            }
        } else {
            fs.fds.get(&fd).map(|i| i.inc).map(|inc| fs.incs[inc].path)
        }
    };
    let pid = match pid {
        Some(p) => p,
        None => return real(),
    };
    sim.yield_point(me, Kind::IoOther, true);
    let r = real();
    let now = sim.now_ns();
    let step = sim.step();
    let mut fs = lock(sim);
    fs.push(now, step, me, IoOp::Forbidden, pid, fd, 0, 0, r, false, what);
    let m = format!("{} applied to store file {}", what, fs.paths[pid as usize]);
    fs.discipline.push(m);
    r
}

/// `rename` inside a store directory. C14 forbids it for store files, so it is recorded as a breach
/// of the file discipline; but it is also *applied to the shadow* (the file continues under its
/// new name with its written and synced lengths, a file that was at the destination is gone), so
/// that crash images, the hint-file comparison and the shadow-versus-disk check stay truthful for
/// a tree that writes files through a temporary name.
pub fn hook_rename(old: &[u8], new: &[u8], real: impl FnOnce() -> i64) -> i64 {
    let (sim, me) = match tracked() {
        Some(x) => x,
        None => return real(),
    };
    let (src, dst) = {
        let mut fs = lock(sim);
        if fs.frozen {
            drop(fs);
            return real();
        }
        let a = fs.rel(old).map(|r| fs.path_id(&r));
        let b = fs.rel(new).map(|r| fs.path_id(&r));
        (a, b)
    };
    if src.is_none() && dst.is_none() {
        return real();
    }
    sim.yield_point(me, Kind::IoOther, true);
    let r = real();
    let now = sim.now_ns();
    let step = sim.step();
    let mut fs = lock(sim);
    let pid = src.or(dst).unwrap();
    let seq = fs.push(now, step, me, IoOp::Forbidden, pid, -1, 0, 0, r, false, "rename");
    let m = format!("rename applied to store file {} -> {}", src.map(|p| fs.paths[p as usize].clone()).unwrap_or_else(|| "(outside)".into()), dst.map(|p| fs.paths[p as usize].clone()).unwrap_or_else(|| "(outside)".into()));
    fs.discipline.push(m);
    if r >= 0 {
        // whatever was at the destination is gone
        if let Some(d) = dst {
            if let Some(i) = fs.live_inc(d) {
                fs.incs[i].unlinked_seq = Some(seq);
            }
        }
        if let Some(sp) = src {
            if let Some(i) = fs.live_inc(sp) {
                fs.incs[i].unlinked_seq = Some(seq);
                if let Some(d) = dst {
                    let old_inc = fs.incs[i].clone();
                    let len = old_inc.data.len() as u64;
                    let synced = old_inc.syncs.last().map(|s| s.1).unwrap_or(0).min(len);
                    let inc = FileInc { path: d, data: old_inc.data, created_seq: seq, unlinked_seq: None, lens: vec![(seq, len)], syncs: vec![(seq, synced)], creator_fd: old_inc.creator_fd, creator_open: old_inc.creator_open, adopted: old_inc.adopted };
                    fs.incs.push(inc);
                    let idx = fs.incs.len() - 1;
                    fs.by_path.entry(d).or_default().push(idx);
                    for info in fs.fds.values_mut() {
                        if info.inc == i {
                            info.inc = idx;
                        }
                    }
                }
            }
        }
    }
    r
}

// ------------------------------------------------------------------------------------------
// harness-side helpers

pub fn set_root(sim: &Sim, root: &str) {
    let mut r = root.as_bytes().to_vec();
    if !r.ends_with(b"/") {
        r.push(b'/');
    }
    lock(sim).root = Some(r);
}

pub fn with_fs<R>(sim: &Sim, f: impl FnOnce(&mut FsState) -> R) -> R {
    let mut g = lock(sim);
    f(&mut g)
}
