//! Simulated time for async code: `sleep`, `Instant`, `timeout`, `interval`.

use std::future::Future;
use std::pin::Pin;
use std::task::{Context, Poll};
use std::time::Duration;

use crate::sched::{current, TimerTarget};

#[derive(Clone, Copy, Debug, PartialEq, Eq, PartialOrd, Ord, Hash)]
pub struct Instant(u64);

impl Instant {
    pub fn now() -> Instant {
        Instant(crate::sched::now_ns())
    }
    pub fn elapsed(&self) -> Duration {
        Duration::from_nanos(crate::sched::now_ns().saturating_sub(self.0))
    }
    pub fn duration_since(&self, earlier: Instant) -> Duration {
        Duration::from_nanos(self.0.saturating_sub(earlier.0))
    }
    pub fn saturating_duration_since(&self, earlier: Instant) -> Duration {
        self.duration_since(earlier)
    }
    pub fn checked_add(&self, d: Duration) -> Option<Instant> {
        self.0.checked_add(d.as_nanos().min(u64::MAX as u128) as u64).map(Instant)
    }
    pub fn as_nanos(&self) -> u64 {
        self.0
    }
}

impl std::ops::Add<Duration> for Instant {
    type Output = Instant;
    fn add(self, d: Duration) -> Instant {
        Instant(self.0.saturating_add(d.as_nanos().min(u64::MAX as u128) as u64))
    }
}

impl std::ops::Sub<Instant> for Instant {
    type Output = Duration;
    fn sub(self, o: Instant) -> Duration {
        self.duration_since(o)
    }
}

impl std::ops::AddAssign<Duration> for Instant {
    fn add_assign(&mut self, d: Duration) {
        *self = *self + d;
    }
}

impl std::ops::Sub<Duration> for Instant {
    type Output = Instant;
    fn sub(self, d: Duration) -> Instant {
        Instant(self.0.saturating_sub(d.as_nanos().min(u64::MAX as u128) as u64))
    }
}

impl std::ops::SubAssign<Duration> for Instant {
    fn sub_assign(&mut self, d: Duration) {
        *self = *self - d;
    }
}

impl Instant {
    pub fn checked_sub(&self, d: Duration) -> Option<Instant> {
        self.0.checked_sub(d.as_nanos().min(u64::MAX as u128) as u64).map(Instant)
    }
    pub fn checked_duration_since(&self, earlier: Instant) -> Option<Duration> {
        self.0.checked_sub(earlier.0).map(Duration::from_nanos)
    }
    /// std's clocks read the simulated clock on a simulated thread (monotonic base plus simulated
    /// time), so the two kinds of instants convert through "time until / since now".
    pub fn from_std(t: std::time::Instant) -> Instant {
        let now_std = std::time::Instant::now();
        let now = Instant::now();
        if t >= now_std {
            now + (t - now_std)
        } else {
            now - (now_std - t)
        }
    }
    pub fn into_std(self) -> std::time::Instant {
        let now_std = std::time::Instant::now();
        let now = Instant::now();
        if self >= now {
            now_std + (self - now)
        } else {
            now_std.checked_sub(now - self).unwrap_or(now_std)
        }
    }
}

impl From<std::time::Instant> for Instant {
    fn from(t: std::time::Instant) -> Instant {
        Instant::from_std(t)
    }
}

pub struct Sleep {
    deadline: u64,
    key: Option<(u64, u64)>,
}

impl Sleep {
    pub fn deadline(&self) -> Instant {
        Instant(self.deadline)
    }
    pub fn is_elapsed(&self) -> bool {
        crate::sched::now_ns() >= self.deadline
    }
    pub fn reset(mut self: Pin<&mut Self>, deadline: Instant) {
        if let (Some(k), Some((sim, _))) = (self.key.take(), current()) {
            sim.cancel_timer(k);
        }
        self.deadline = deadline.0;
    }
}

impl Unpin for Sleep {}

impl Future for Sleep {
    type Output = ();
    fn poll(mut self: Pin<&mut Self>, cx: &mut Context<'_>) -> Poll<()> {
        let (sim, _) = match current() {
            Some(x) => x,
            None => return Poll::Ready(()),
        };
        let now = sim.now_ns();
        if now >= self.deadline {
            if let Some(k) = self.key.take() {
                sim.cancel_timer(k);
            }
            return Poll::Ready(());
        }
        if let Some(k) = self.key.take() {
            sim.cancel_timer(k);
        }
        self.key = Some(sim.add_timer(self.deadline, TimerTarget::Waker(cx.waker().clone())));
        sim.probe("async_sleep_registered");
        Poll::Pending
    }
}

impl Drop for Sleep {
    fn drop(&mut self) {
        if let (Some(k), Some((sim, _))) = (self.key.take(), current()) {
            sim.cancel_timer(k);
        }
    }
}

pub fn sleep(d: Duration) -> Sleep {
    let now = crate::sched::now_ns();
    Sleep { deadline: now.saturating_add(d.as_nanos().min(u64::MAX as u128 / 2) as u64), key: None }
}

pub fn sleep_until(t: Instant) -> Sleep {
    Sleep { deadline: t.0, key: None }
}

#[derive(Debug, PartialEq, Eq)]
pub struct Elapsed(());

impl std::fmt::Display for Elapsed {
    fn fmt(&self, f: &mut std::fmt::Formatter<'_>) -> std::fmt::Result {
        write!(f, "deadline has elapsed")
    }
}
impl std::error::Error for Elapsed {}
impl From<Elapsed> for std::io::Error {
    fn from(_: Elapsed) -> std::io::Error {
        std::io::ErrorKind::TimedOut.into()
    }
}

pub struct Timeout<F> {
    fut: Pin<Box<F>>,
    sleep: Sleep,
}

impl<F: Future> Future for Timeout<F> {
    type Output = Result<F::Output, Elapsed>;
    fn poll(mut self: Pin<&mut Self>, cx: &mut Context<'_>) -> Poll<Self::Output> {
        if let Poll::Ready(v) = self.fut.as_mut().poll(cx) {
            return Poll::Ready(Ok(v));
        }
        match Pin::new(&mut self.sleep).poll(cx) {
            Poll::Ready(()) => Poll::Ready(Err(Elapsed(()))),
            Poll::Pending => Poll::Pending,
        }
    }
}

pub fn timeout<F: Future>(d: Duration, fut: F) -> Timeout<F> {
    Timeout { fut: Box::pin(fut), sleep: sleep(d) }
}

pub fn timeout_at<F: Future>(deadline: Instant, fut: F) -> Timeout<F> {
    Timeout { fut: Box::pin(fut), sleep: sleep_until(deadline) }
}

impl<F> Timeout<F> {
    pub fn get_ref(&self) -> &F {
        &self.fut
    }
    pub fn into_inner(self) -> Pin<Box<F>> {
        self.fut
    }
}

/// What an `Interval` does about ticks it missed (accepted and recorded; the simulated interval
/// always continues from the tick it delivered, which is `Burst`'s schedule).
#[derive(Clone, Copy, Debug, PartialEq, Eq, Default)]
pub enum MissedTickBehavior {
    #[default]
    Burst,
    Delay,
    Skip,
}

pub struct Interval {
    period: Duration,
    next: Instant,
    missed: MissedTickBehavior,
}

impl Interval {
    pub async fn tick(&mut self) -> Instant {
        let at = self.next;
        sleep_until(at).await;
        let now = Instant::now();
        self.next = match self.missed {
            MissedTickBehavior::Burst => at + self.period,
            MissedTickBehavior::Delay => now + self.period,
            MissedTickBehavior::Skip => {
                let mut n = at + self.period;
                while n <= now {
                    n = n + self.period;
                }
                n
            }
        };
        at
    }
    pub fn period(&self) -> Duration {
        self.period
    }
    pub fn reset(&mut self) {
        self.next = Instant::now() + self.period;
    }
    pub fn missed_tick_behavior(&self) -> MissedTickBehavior {
        self.missed
    }
    pub fn set_missed_tick_behavior(&mut self, b: MissedTickBehavior) {
        self.missed = b;
    }
}

pub fn interval(period: Duration) -> Interval {
    assert!(period > Duration::ZERO, "`period` must be non-zero.");
    Interval { period, next: Instant::now(), missed: MissedTickBehavior::Burst }
}

pub fn interval_at(start: Instant, period: Duration) -> Interval {
    assert!(period > Duration::ZERO, "`period` must be non-zero.");
    Interval { period, next: start, missed: MissedTickBehavior::Burst }
}
