//! The scheduler: simulated threads are real OS threads, exactly one of which holds the
//! *baton* at any time. A thread gives the baton up only at scheduling points, where a
//! seeded strategy decides who continues. Also owns the discrete-event clock.

use std::cell::Cell;
use std::collections::{BTreeMap, HashMap};
use std::sync::atomic::{AtomicPtr, AtomicU64, Ordering};
use std::sync::{Arc, Condvar, Mutex, MutexGuard};
use std::task::Waker;

use crate::rng::{mix, Rng};

pub const NO_TID: usize = usize::MAX;

thread_local! {
    static TID: Cell<usize> = const { Cell::new(NO_TID) };
    /// Set while `simrt::spawn` runs `std::thread::Builder::spawn`, so the pthread_create
    /// interposer knows the registration is done explicitly.
    static EXPLICIT_SPAWN: Cell<bool> = const { Cell::new(false) };
    /// >0 while the harness does bookkeeping I/O that must not be tracked or scheduled.
    static SUSPEND: Cell<u32> = const { Cell::new(0) };
}

static CUR: AtomicPtr<Sim> = AtomicPtr::new(std::ptr::null_mut());
static SIM_GENERATION: AtomicU64 = AtomicU64::new(0);

/// What kind of scheduling point this is (for probes and the trace).
#[derive(Clone, Copy, Debug, PartialEq, Eq)]
#[repr(u8)]
pub enum Kind {
    LockAcquire = 0,
    LockRelease = 1,
    RwShared = 2,
    RwExclusive = 3,
    AtomicLoad = 4,
    AtomicStore = 5,
    QueuePop = 6,
    QueuePush = 7,
    Spin = 8,
    IoWrite = 9,
    IoCreate = 10,
    IoFsync = 11,
    IoUnlink = 12,
    IoOpenRead = 13,
    IoMmap = 14,
    IoStat = 15,
    IoOther = 16,
    TaskPoll = 17,
    NetRead = 18,
    NetWrite = 19,
    NetOther = 20,
    Spawn = 21,
    Exit = 22,
    Block = 23,
    Harness = 24,
    TimerWait = 25,
}
pub const KIND_COUNT: usize = 26;

#[derive(Clone, Debug)]
pub enum Strategy {
    /// Run each thread until it blocks.
    Fifo,
    /// At each scheduling point switch with probability `per_mille`/1000 to a uniformly chosen
    /// eligible thread.
    Random { per_mille: u32 },
    /// PCT: random priorities, `depth` priority change points over an estimated run length.
    Pct { depth: u32, est_steps: u64 },
}

#[derive(Clone, Debug)]
pub struct SimConfig {
    pub seed: u64,
    pub strategy: Strategy,
    pub step_cap: u64,
    pub num_cpus: usize,
    pub record_trace: bool,
    /// wall clock at simulated time zero, ns since the Unix epoch
    pub wall_epoch_ns: i64,
    /// real timers never fire early and practically never exactly on time: when the clock jumps
    /// to a timer's deadline it lands up to this many nanoseconds past it (0 = exactly on time)
    pub timer_late_max_ns: u64,
}

impl Default for SimConfig {
    fn default() -> Self {
        SimConfig {
            seed: 1,
            strategy: Strategy::Fifo,
            step_cap: 2_000_000,
            num_cpus: 1,
            record_trace: false,
            wall_epoch_ns: 1_700_000_000_000_000_000,
            timer_late_max_ns: 0,
        }
    }
}

#[derive(Clone, Debug, PartialEq, Eq)]
pub enum Why {
    Lock(usize),
    Join(usize),
    Timer,
    IdleWorker(u64),
    BlockOn,
    Net,
    Quiescent,
    Chan,
    Other(&'static str),
}

#[derive(Clone, Debug, PartialEq, Eq)]
enum St {
    /// created by its parent but has not yet reached its entry hook
    Runnable,
    Blocked(Why),
    /// spin-waiting: eligible again once the progress epoch has moved past the stored value
    SpinWait(u64),
    Finished,
}

thread_local! {
    /// > 0 while this thread is inside the scheduler's own blocking primitives (parking, the
    /// acquisition of the scheduler lock): futex calls made there are the simulator's, not the
    /// code under test's, and always go to the kernel (see `futex_is_users`).
    static INTERNAL: Cell<u32> = const { Cell::new(0) };
}

struct InternalGuard;
impl InternalGuard {
    fn new() -> Self {
        let _ = INTERNAL.try_with(|c| c.set(c.get() + 1));
        InternalGuard
    }
}
impl Drop for InternalGuard {
    fn drop(&mut self) {
        let _ = INTERNAL.try_with(|c| c.set(c.get().saturating_sub(1)));
    }
}

/// Is a futex call made now by this thread one of the code under test (or of harness code
/// running as a simulated thread), as opposed to one of the scheduler's own?
pub fn futex_is_users() -> bool {
    INTERNAL.try_with(|c| c.get() == 0).unwrap_or(false)
}

struct Parker {
    flag: Mutex<bool>,
    cv: Condvar,
}

impl Parker {
    fn new() -> Self {
        Parker { flag: Mutex::new(false), cv: Condvar::new() }
    }
    fn park(&self) {
        let _i = InternalGuard::new();
        let mut g = self.flag.lock().unwrap_or_else(|e| e.into_inner());
        while !*g {
            g = self.cv.wait(g).unwrap_or_else(|e| e.into_inner());
        }
        *g = false;
    }
    fn unpark(&self) {
        let _i = InternalGuard::new();
        let mut g = self.flag.lock().unwrap_or_else(|e| e.into_inner());
        *g = true;
        self.cv.notify_one();
    }
}

struct Slot {
    st: St,
    name: String,
    parker: Arc<Parker>,
    /// wake-up token: a wake that arrived while the thread was not blocked
    token: bool,
    priority: u64,
    /// implicit (foreign `std::thread::spawn` seen by the pthread_create interposer)
    implicit: bool,
    started_at: u64,
    finished_at: Option<u64>,
    panicked: bool,
}

pub enum TimerTarget {
    Thread(usize),
    Waker(Waker),
}

#[derive(Clone, Debug, PartialEq, Eq)]
pub enum FatalKind {
    Deadlock,
    Livelock,
    StepCap,
}

#[derive(Clone, Debug)]
pub struct FatalInfo {
    pub kind: FatalKind,
    pub detail: String,
    pub step: u64,
    pub now_ns: u64,
}

pub type FatalHook = Box<dyn Fn(&FatalInfo) + Send + Sync>;
static FATAL_HOOK: Mutex<Option<FatalHook>> = Mutex::new(None);

/// Installs what happens on deadlock / livelock / step cap. The hook should report and will be
/// followed by `_exit(70)`: the simulated threads are stuck for good, the process is useless.
pub fn set_fatal_hook(h: FatalHook) {
    *FATAL_HOOK.lock().unwrap() = Some(h);
}

pub struct Sched {
    /// (thread, from, to) of every completed lock wait and thread-level sleep, when enabled
    wait_log: Option<Vec<(usize, u64, u64)>>,
    threads: Vec<Slot>,
    current: usize,
    now: u64,
    timers: BTreeMap<(u64, u64), TimerTarget>,
    timer_seq: u64,
    epoch: u64,
    rng: Rng,
    strategy: Strategy,
    step: u64,
    step_cap: u64,
    trace_hash: u64,
    trace: Option<Vec<(u64, u32)>>,
    pct_points: Vec<u64>,
    pct_low: u64,
    lock_waiters: HashMap<usize, Vec<usize>>,
    quiescent_waiter: Option<(usize, u64)>,
    switches: u64,
    decisions: u64,
    kind_counts: [u64; KIND_COUNT],
    /// (from kind, to kind) pairs seen at preemptions, as a small set
    preempt_pairs: std::collections::BTreeSet<(u8, u8)>,
    last_kind: Vec<u8>,
    time_advances: u64,
    max_threads: usize,
}

pub struct Sim {
    /// set by the harness when it gives up on threads that will never finish (a verdict was
    /// already reached): `run` then returns without joining them and the process must not be
    /// used for another simulation
    pub abandoned: std::sync::atomic::AtomicBool,
    st: Mutex<Sched>,
    /// mirror of `Sched::current` that can be read without the scheduler lock
    holder: std::sync::atomic::AtomicUsize,
    pub cfg: SimConfig,
    pub generation: u64,
    pub streams: Mutex<BTreeMap<&'static str, Rng>>,
    pub probes: Mutex<BTreeMap<&'static str, u64>>,
    pub wall_skew_ns: std::sync::atomic::AtomicI64,
    /// per-simulation extension slots (fs shadow, net namespace, executor registry)
    pub ext: crate::ext::Ext,
}

#[derive(Clone, Debug, Default)]
pub struct SchedStats {
    pub steps: u64,
    pub switches: u64,
    pub decisions: u64,
    pub trace_hash: u64,
    pub now_ns: u64,
    pub time_advances: u64,
    pub threads: usize,
    pub max_threads: usize,
    pub kind_counts: Vec<u64>,
    pub preempt_pairs: usize,
}

// ------------------------------------------------------------------------------------------
// access to the current simulation

#[inline]
pub fn my_tid() -> usize {
    TID.try_with(|t| t.get()).unwrap_or(NO_TID)
}

/// The running simulation, if the calling OS thread is one of its simulated threads and
/// tracking is not suspended.
#[inline]
pub fn current() -> Option<(&'static Sim, usize)> {
    let tid = my_tid();
    if tid == NO_TID {
        return None;
    }
    let p = CUR.load(Ordering::Acquire);
    if p.is_null() {
        return None;
    }
    // SAFETY: CUR is cleared only after every simulated thread has finished (Sim::run), and
    // `tid != NO_TID` means we are such a thread.
    Some((unsafe { &*p }, tid))
}

#[inline]
pub fn in_sim() -> bool {
    my_tid() != NO_TID && !CUR.load(Ordering::Acquire).is_null()
}

#[inline]
pub fn suspended() -> bool {
    SUSPEND.try_with(|s| s.get() > 0).unwrap_or(true)
}

/// Run `f` with I/O tracking and scheduling points switched off for this thread.
pub fn untracked<R>(f: impl FnOnce() -> R) -> R {
    struct G;
    impl Drop for G {
        fn drop(&mut self) {
            let _ = SUSPEND.try_with(|s| s.set(s.get() - 1));
        }
    }
    SUSPEND.with(|s| s.set(s.get() + 1));
    let _g = G;
    f()
}

impl Sim {
    fn lock(&self) -> MutexGuard<'_, Sched> {
        let _i = InternalGuard::new();
        self.st.lock().unwrap_or_else(|e| e.into_inner())
    }

    /// Does simulated thread `me` hold the baton right now? (lock-free)
    pub fn holds_baton(&self, me: usize) -> bool {
        self.holder.load(Ordering::Acquire) == me
    }

    /// futex(FUTEX_WAIT) of the code under test: block `me` until a simulated FUTEX_WAKE on
    /// `addr` or until simulated time `deadline`. Returns `None` when the futex word does not
    /// hold `expected` (EAGAIN), otherwise whether the wait timed out.
    pub fn futex_wait(&self, me: usize, addr: usize, expected: u32, deadline: Option<u64>) -> Option<bool> {
        self.wait_on(me, addr, Some(expected), deadline)
    }

    /// Block `me` on the wait queue of `addr` until `futex_wake(addr, ..)` / `wake_lock_waiters`
    /// or until simulated time `deadline`; with `expected`, only if the 32-bit word at `addr`
    /// still holds it. `None`: the word differed; `Some(timed_out)` otherwise.
    pub fn wait_on(&self, me: usize, addr: usize, expected: Option<u32>, deadline: Option<u64>) -> Option<bool> {
        let mut g = self.lock();
        // compare and enqueue under the scheduler lock, which `futex_wake` takes too: a thread
        // that is not under the scheduler's control any more (the tail of a finished thread
        // releasing a process-wide lock of std or of a library) may store and wake for real at
        // any moment, and its wake must not fall between the comparison and the enqueueing
        // SAFETY: the caller passes the address of a live futex word (it is about to sleep on it)
        if let Some(expected) = expected {
            if unsafe { std::ptr::read_volatile(addr as *const u32) } != expected {
                return None;
            }
        }
        g.step += 1;
        g.kind_counts[Kind::Block as usize] += 1;
        g.lock_waiters.entry(addr).or_default().push(me);
        let key = deadline.map(|d| {
            g.timer_seq += 1;
            let k = (d.max(g.now), g.timer_seq);
            g.timers.insert(k, TimerTarget::Thread(me));
            k
        });
        g.threads[me].st = St::Blocked(Why::Lock(addr));
        let from = g.now;
        let logging = g.wait_log.is_some();
        self.dispatch(g, me, false);
        if logging {
            self.note_wait(me, from);
        }
        let mut g = self.lock();
        let timed_out = match key {
            Some(k) => g.timers.remove(&k).is_none(),
            None => false,
        };
        if let Some(ws) = g.lock_waiters.get_mut(&addr) {
            ws.retain(|w| *w != me);
            if ws.is_empty() {
                g.lock_waiters.remove(&addr);
            }
        }
        Some(timed_out)
    }

    /// futex(FUTEX_WAKE): make up to `n` simulated waiters of `addr` runnable; returns how many.
    pub fn futex_wake(&self, addr: usize, n: usize) -> usize {
        let mut g = self.lock();
        let mut woken = 0;
        if let Some(mut ws) = g.lock_waiters.remove(&addr) {
            while woken < n && !ws.is_empty() {
                let w = ws.remove(0);
                if g.threads[w].st == St::Blocked(Why::Lock(addr)) {
                    g.threads[w].st = St::Runnable;
                    woken += 1;
                }
            }
            if !ws.is_empty() {
                g.lock_waiters.insert(addr, ws);
            }
        }
        if woken > 0 {
            g.epoch += 1;
        }
        woken
    }

    /// Draw from a labelled stream of this run.
    pub fn with_stream<R>(&self, label: &'static str, f: impl FnOnce(&mut Rng) -> R) -> R {
        let mut g = self.streams.lock().unwrap_or_else(|e| e.into_inner());
        let seed = self.cfg.seed;
        let r = g.entry(label).or_insert_with(|| Rng::stream(seed, label));
        f(r)
    }

    pub fn probe(&self, name: &'static str) {
        self.probe_add(name, 1)
    }

    pub fn probe_add(&self, name: &'static str, n: u64) {
        let mut g = self.probes.lock().unwrap_or_else(|e| e.into_inner());
        *g.entry(name).or_insert(0) += n;
    }

    pub fn probe_max(&self, name: &'static str, n: u64) {
        let mut g = self.probes.lock().unwrap_or_else(|e| e.into_inner());
        let e = g.entry(name).or_insert(0);
        if n > *e {
            *e = n;
        }
    }

    pub fn probes_snapshot(&self) -> BTreeMap<&'static str, u64> {
        self.probes.lock().unwrap_or_else(|e| e.into_inner()).clone()
    }

    pub fn now_ns(&self) -> u64 {
        self.lock().now
    }

    pub fn wall_ns(&self) -> i64 {
        self.cfg.wall_epoch_ns + self.now_ns() as i64 + self.wall_skew_ns.load(Ordering::Relaxed)
    }

    pub fn step(&self) -> u64 {
        self.lock().step
    }

    pub fn stats(&self) -> SchedStats {
        let g = self.lock();
        SchedStats {
            steps: g.step,
            switches: g.switches,
            decisions: g.decisions,
            trace_hash: g.trace_hash,
            now_ns: g.now,
            time_advances: g.time_advances,
            threads: g.threads.len(),
            max_threads: g.max_threads,
            kind_counts: g.kind_counts.to_vec(),
            preempt_pairs: g.preempt_pairs.len(),
        }
    }

    pub fn take_trace(&self) -> Option<Vec<(u64, u32)>> {
        self.lock().trace.take()
    }

    pub fn thread_names(&self) -> Vec<(usize, String, bool)> {
        let g = self.lock();
        g.threads
            .iter()
            .enumerate()
            .map(|(i, s)| (i, s.name.clone(), s.st == St::Finished))
            .collect()
    }

    /// Number of simulated threads that have not finished, excluding the caller.
    pub fn live_other_threads(&self, me: usize) -> usize {
        let g = self.lock();
        g.threads.iter().enumerate().filter(|(i, s)| *i != me && s.st != St::Finished).count()
    }

    pub fn live_threads_named(&self, name: &str) -> usize {
        let g = self.lock();
        g.threads.iter().filter(|s| s.st != St::Finished && s.name == name).count()
    }

    pub fn thread_finished(&self, tid: usize) -> bool {
        self.lock().threads[tid].st == St::Finished
    }

    pub fn thread_finished_at(&self, tid: usize) -> Option<u64> {
        self.lock().threads[tid].finished_at
    }

    pub fn threads_named(&self, name: &str) -> Vec<usize> {
        let g = self.lock();
        g.threads.iter().enumerate().filter(|(_, s)| s.name == name).map(|(i, _)| i).collect()
    }

    pub fn mark_panicked(&self, tid: usize) {
        self.lock().threads[tid].panicked = true;
    }

    // --------------------------------------------------------------------------------------
    // choosing who runs

    fn eligible(g: &Sched) -> Vec<usize> {
        let mut v = Vec::new();
        for (i, s) in g.threads.iter().enumerate() {
            match s.st {
                St::Runnable => v.push(i),
                St::SpinWait(e) if e < g.epoch => v.push(i),
                _ => {}
            }
        }
        v
    }

    fn fatal(&self, g: MutexGuard<'_, Sched>, kind: FatalKind) -> ! {
        let mut detail = String::new();
        for (i, s) in g.threads.iter().enumerate() {
            if s.st != St::Finished {
                let st = match &s.st {
                    St::Blocked(Why::Lock(_)) => "Blocked(Lock)".to_string(),
                    other => format!("{:?}", other),
                };
                detail.push_str(&format!("[t{} {} {}] ", i, s.name, st));
            }
        }
        if std::env::var("BCSIM_DEBUG").is_ok() {
            eprintln!("fatal {:?}: kind counts {:?} timers {} now {}", kind, g.kind_counts, g.timers.len(), g.now);
        }
        let info = FatalInfo { kind, detail, step: g.step, now_ns: g.now };
        drop(g);
        if let Some(h) = FATAL_HOOK.lock().unwrap_or_else(|e| e.into_inner()).as_ref() {
            h(&info);
        } else {
            eprintln!("simrt fatal: {:?}", info);
        }
        unsafe { libc::_exit(70) }
    }

    /// The calling thread `me` has set its own state; pick who runs next, hand over the
    /// baton and return once `me` holds it again.
    fn dispatch<'a>(&'a self, mut g: MutexGuard<'a, Sched>, me: usize, voluntary: bool) {
        let next = loop {
            let elig = Self::eligible(&g);
            if elig.is_empty() {
                // nobody can run: quiescence waiter, else advance the clock, else stuck
                let next_deadline = g.timers.keys().next().map(|k| k.0);
                if let Some((q, limit)) = g.quiescent_waiter {
                    let fire = matches!(next_deadline, Some(d) if d <= limit);
                    if !fire {
                        g.quiescent_waiter = None;
                        if limit != u64::MAX && limit > g.now {
                            g.now = limit;
                        }
                        g.threads[q].st = St::Runnable;
                        continue;
                    }
                }
                if let Some(key) = g.timers.keys().next().cloned() {
                    let target = g.timers.remove(&key).unwrap();
                    if key.0 > g.now {
                        let late = if self.cfg.timer_late_max_ns > 0 { self.with_stream("timer-late", |r| r.below(self.cfg.timer_late_max_ns + 1)) } else { 0 };
                        g.now = key.0 + late;
                        g.time_advances += 1;
                    }
                    match target {
                        TimerTarget::Thread(t) => Self::wake_locked(&mut g, t),
                        TimerTarget::Waker(w) => {
                            // wakers re-enter the scheduler; nobody else runs meanwhile
                            drop(g);
                            w.wake();
                            g = self.lock();
                        }
                    }
                    continue;
                }
                let spinning = g.threads.iter().any(|s| matches!(s.st, St::SpinWait(_)));
                self.fatal(g, if spinning { FatalKind::Livelock } else { FatalKind::Deadlock });
            }
            break self.choose(&mut g, &elig, me, voluntary);
        };
        if g.threads[next].st != St::Runnable {
            g.threads[next].st = St::Runnable;
        }
        g.current = next;
        self.holder.store(next, Ordering::Release);
        if next != me {
            g.switches += 1;
            if voluntary && me < g.last_kind.len() && next < g.last_kind.len() {
                let pair = (g.last_kind[me], g.last_kind[next]);
                g.preempt_pairs.insert(pair);
            }
            let p = g.threads[next].parker.clone();
            let mine = g.threads[me].parker.clone();
            drop(g);
            p.unpark();
            mine.park();
        }
    }

    fn choose(&self, g: &mut Sched, elig: &[usize], me: usize, voluntary: bool) -> usize {
        let me_elig = voluntary && elig.contains(&me);
        let next = if elig.len() == 1 {
            elig[0]
        } else {
            g.decisions += 1;
            match g.strategy {
                Strategy::Fifo => {
                    if me_elig {
                        me
                    } else {
                        // round robin from me
                        *elig.iter().find(|t| **t > me).unwrap_or(&elig[0])
                    }
                }
                Strategy::Random { .. } => {
                    // the probability test was done by the caller for voluntary yields
                    elig[g.rng.usize_below(elig.len())]
                }
                Strategy::Pct { .. } => {
                    *elig.iter().max_by_key(|t| g.threads[**t].priority).unwrap()
                }
            }
        };
        if elig.len() > 1 {
            g.trace_hash = mix(g.trace_hash, mix(g.step, next as u64));
            if let Some(t) = g.trace.as_mut() {
                t.push((g.step, next as u32));
            }
        }
        next
    }

    fn wake_locked(g: &mut Sched, tid: usize) {
        match g.threads[tid].st {
            St::Blocked(_) => g.threads[tid].st = St::Runnable,
            St::Finished => {}
            _ => g.threads[tid].token = true,
        }
    }

    // --------------------------------------------------------------------------------------
    // scheduling points

    /// A scheduling point. `progress` says whether the operation that follows changes shared
    /// state (used to decide when spin-waiting threads are worth running again).
    pub fn yield_point(&self, me: usize, kind: Kind, progress: bool) {
        if suspended() {
            return;
        }
        let mut g = self.lock();
        debug_assert_eq!(g.current, me, "yield from a thread that does not hold the baton");
        g.step += 1;
        g.kind_counts[kind as usize] += 1;
        if progress {
            g.epoch += 1;
        }
        if g.step > g.step_cap {
            self.fatal(g, FatalKind::StepCap);
        }
        if me < g.last_kind.len() {
            g.last_kind[me] = kind as u8;
        }
        if g.threads.len() - 0 == 1 {
            return;
        }
        let switch = match g.strategy {
            Strategy::Fifo => false,
            Strategy::Random { per_mille } => g.rng.below(1000) < per_mille as u64,
            Strategy::Pct { .. } => {
                // priority change point?
                let step = g.step;
                if g.pct_points.binary_search(&step).is_ok() {
                    g.pct_low -= 1;
                    let low = g.pct_low;
                    g.threads[me].priority = low;
                }
                true
            }
        };
        if !switch {
            return;
        }
        let before = g.current;
        self.dispatch(g, me, true);
        let _ = before;
    }

    /// Block the caller until `wake_thread(me)`. Returns immediately if a wake token is pending.
    pub fn block(&self, me: usize, why: Why) {
        let mut g = self.lock();
        g.step += 1;
        g.kind_counts[Kind::Block as usize] += 1;
        if g.threads[me].token {
            g.threads[me].token = false;
            return;
        }
        g.threads[me].st = St::Blocked(why);
        self.dispatch(g, me, false);
    }

    /// Spin-wait: give way until some other thread has made progress.
    pub fn spin_wait(&self, me: usize) {
        if suspended() {
            return;
        }
        let mut g = self.lock();
        g.step += 1;
        g.kind_counts[Kind::Spin as usize] += 1;
        if g.step > g.step_cap {
            self.fatal(g, FatalKind::StepCap);
        }
        let e = g.epoch;
        g.threads[me].st = St::SpinWait(e);
        self.dispatch(g, me, false);
    }

    pub fn wake_thread(&self, tid: usize) {
        let mut g = self.lock();
        Self::wake_locked(&mut g, tid);
    }

    /// Note that shared state changed outside a scheduling point (e.g. inside a waker).
    pub fn note_progress(&self) {
        self.lock().epoch += 1;
    }

    // --------------------------------------------------------------------------------------
    // lock wait queues (used by sync.rs)

    pub fn block_on_lock(&self, me: usize, addr: usize) {
        let mut g = self.lock();
        g.step += 1;
        g.lock_waiters.entry(addr).or_default().push(me);
        g.threads[me].st = St::Blocked(Why::Lock(addr));
        let from = g.now;
        let logging = g.wait_log.is_some();
        self.dispatch(g, me, false);
        if logging {
            self.note_wait(me, from);
        }
    }

    fn note_wait(&self, me: usize, from: u64) {
        let mut g = self.lock();
        let to = g.now;
        if to > from {
            if let Some(l) = g.wait_log.as_mut() {
                l.push((me, from, to));
            }
        }
    }

    /// Start recording how long each thread waits for locks and in thread-level sleeps
    /// (simulated time only passes while threads wait).
    pub fn enable_wait_log(&self) {
        let mut g = self.lock();
        if g.wait_log.is_none() {
            g.wait_log = Some(Vec::new());
        }
    }

    pub fn wait_log(&self) -> Vec<(usize, u64, u64)> {
        self.lock().wait_log.clone().unwrap_or_default()
    }

    /// Make every waiter of `addr` runnable again (they re-contend; barging is allowed, as
    /// with the real parking_lot).
    pub fn wake_lock_waiters(&self, addr: usize) {
        let mut g = self.lock();
        if let Some(ws) = g.lock_waiters.remove(&addr) {
            for w in ws {
                if g.threads[w].st == St::Blocked(Why::Lock(addr)) {
                    g.threads[w].st = St::Runnable;
                }
            }
        }
    }

    // --------------------------------------------------------------------------------------
    // time

    pub fn add_timer(&self, deadline: u64, target: TimerTarget) -> (u64, u64) {
        let mut g = self.lock();
        g.timer_seq += 1;
        let key = (deadline, g.timer_seq);
        g.timers.insert(key, target);
        key
    }

    pub fn cancel_timer(&self, key: (u64, u64)) {
        self.lock().timers.remove(&key);
    }

    pub fn pending_timers(&self) -> usize {
        self.lock().timers.len()
    }

    pub fn next_timer_deadline(&self) -> Option<u64> {
        self.lock().timers.keys().next().map(|k| k.0)
    }

    /// Sleep the calling simulated thread for `ns` of simulated time.
    pub fn sleep_thread(&self, me: usize, ns: u64) {
        if ns == 0 {
            return;
        }
        let mut g = self.lock();
        g.step += 1;
        g.kind_counts[Kind::TimerWait as usize] += 1;
        g.timer_seq += 1;
        let key = (g.now + ns, g.timer_seq);
        g.timers.insert(key, TimerTarget::Thread(me));
        g.threads[me].token = false;
        g.threads[me].st = St::Blocked(Why::Timer);
        let from = g.now;
        let logging = g.wait_log.is_some();
        self.dispatch(g, me, false);
        if logging {
            self.note_wait(me, from);
        }
    }

    /// Block until no other thread can run. With `limit == u64::MAX` pending timers are not
    /// waited for... they *are* fired as long as their deadline is `<= limit`; with `limit`
    /// equal to the current time no simulated time passes.
    pub fn wait_quiescent(&self, me: usize, limit: u64) {
        let mut g = self.lock();
        g.step += 1;
        g.quiescent_waiter = Some((me, limit));
        g.threads[me].token = false;
        g.threads[me].st = St::Blocked(Why::Quiescent);
        self.dispatch(g, me, false);
    }

    // --------------------------------------------------------------------------------------
    // threads

    /// Called in the parent: allocate a slot for a child thread.
    pub fn prepare_child(&self, name: &str, implicit: bool) -> usize {
        let mut g = self.lock();
        let tid = g.threads.len();
        let prio = match g.strategy {
            Strategy::Pct { .. } => 1_000_000 + g.rng.below(1_000_000),
            _ => 0,
        };
        let now = g.now;
        g.threads.push(Slot {
            st: St::Runnable,
            name: name.to_string(),
            parker: Arc::new(Parker::new()),
            token: false,
            priority: prio,
            implicit,
            started_at: now,
            finished_at: None,
            panicked: false,
        });
        g.last_kind.push(Kind::Spawn as u8);
        g.epoch += 1;
        let live = g.threads.iter().filter(|s| s.st != St::Finished).count();
        if live > g.max_threads {
            g.max_threads = live;
        }
        tid
    }

    /// Called first thing in the child OS thread: become simulated thread `tid` and wait for
    /// the baton.
    pub fn child_entry(&self, tid: usize) {
        TID.with(|t| t.set(tid));
        let p = self.lock().threads[tid].parker.clone();
        p.park();
    }

    pub fn set_thread_name(&self, tid: usize, name: &str) {
        self.lock().threads[tid].name = name.to_string();
    }

    /// Called last thing in the child OS thread.
    pub fn child_exit(&self, me: usize) {
        let mut g = self.lock();
        g.step += 1;
        g.epoch += 1;
        g.threads[me].st = St::Finished;
        g.threads[me].finished_at = Some(g.now);
        // wake joiners
        for i in 0..g.threads.len() {
            if g.threads[i].st == St::Blocked(Why::Join(me)) {
                g.threads[i].st = St::Runnable;
            }
        }
        TID.with(|t| t.set(NO_TID));
        // hand the baton over without waiting for it again
        let next = loop {
            let elig = Self::eligible(&g);
            if elig.is_empty() {
                let next_deadline = g.timers.keys().next().map(|k| k.0);
                if let Some((q, limit)) = g.quiescent_waiter {
                    let fire = matches!(next_deadline, Some(d) if d <= limit);
                    if !fire {
                        g.quiescent_waiter = None;
                        if limit != u64::MAX && limit > g.now {
                            g.now = limit;
                        }
                        g.threads[q].st = St::Runnable;
                        continue;
                    }
                }
                if let Some(key) = g.timers.keys().next().cloned() {
                    let target = g.timers.remove(&key).unwrap();
                    if key.0 > g.now {
                        let late = if self.cfg.timer_late_max_ns > 0 { self.with_stream("timer-late", |r| r.below(self.cfg.timer_late_max_ns + 1)) } else { 0 };
                        g.now = key.0 + late;
                        g.time_advances += 1;
                    }
                    match target {
                        TimerTarget::Thread(t) => Self::wake_locked(&mut g, t),
                        TimerTarget::Waker(w) => {
                            // We are no longer a simulated thread, but still the only one
                            // running; temporarily take the identity back for the waker.
                            drop(g);
                            TID.with(|t| t.set(me));
                            w.wake();
                            TID.with(|t| t.set(NO_TID));
                            g = self.lock();
                        }
                    }
                    continue;
                }
                if g.threads.iter().all(|s| s.st == St::Finished) {
                    // the whole simulation is over
                    return;
                }
                let spinning = g.threads.iter().any(|s| matches!(s.st, St::SpinWait(_)));
                self.fatal(g, if spinning { FatalKind::Livelock } else { FatalKind::Deadlock });
            }
            break self.choose(&mut g, &elig, me, false);
        };
        g.threads[next].st = St::Runnable;
        g.current = next;
        self.holder.store(next, Ordering::Release);
        g.switches += 1;
        let p = g.threads[next].parker.clone();
        drop(g);
        p.unpark();
    }

    pub fn block_join(&self, me: usize, target: usize) {
        loop {
            {
                let mut g = self.lock();
                if g.threads[target].st == St::Finished {
                    return;
                }
                g.step += 1;
                g.threads[me].st = St::Blocked(Why::Join(target));
                self.dispatch(g, me, false);
            }
        }
    }

    /// Uniform choice from the schedule stream (task picking, waiter picking).
    pub fn sched_choice(&self, n: usize) -> usize {
        if n <= 1 {
            return 0;
        }
        let mut g = self.lock();
        match g.strategy {
            Strategy::Fifo => 0,
            _ => {
                let c = g.rng.usize_below(n);
                g.trace_hash = mix(g.trace_hash, c as u64 + 0x1000);
                c
            }
        }
    }
}

// ------------------------------------------------------------------------------------------
// free functions used by facades

#[inline]
pub fn yield_now(kind: Kind, progress: bool) {
    if let Some((sim, me)) = current() {
        sim.yield_point(me, kind, progress);
    }
}

pub fn probe(name: &'static str) {
    if let Some((sim, _)) = current() {
        sim.probe(name);
    }
}

pub fn probe_add(name: &'static str, n: u64) {
    if let Some((sim, _)) = current() {
        sim.probe_add(name, n);
    }
}

pub fn now_ns() -> u64 {
    match current() {
        Some((sim, _)) => sim.now_ns(),
        None => 0,
    }
}

/// For the pthread_create interposer: `Some(tid)` if the caller is a simulated thread spawning
/// a thread that `simrt::spawn` does not already handle.
pub fn implicit_spawn_prepare() -> Option<(&'static Sim, usize)> {
    if EXPLICIT_SPAWN.try_with(|e| e.get()).unwrap_or(true) {
        return None;
    }
    let (sim, _me) = current()?;
    let tid = sim.prepare_child("implicit", true);
    sim.probe("implicit_thread_spawn");
    Some((sim, tid))
}

pub struct SimJoinHandle<T> {
    pub tid: usize,
    os: std::thread::JoinHandle<Option<T>>,
}

impl<T> SimJoinHandle<T> {
    /// Wait (in simulated terms) for the thread to finish; `Err` carries a panic payload.
    pub fn join(self) -> std::thread::Result<T> {
        if let Some((sim, me)) = current() {
            sim.block_join(me, self.tid);
        }
        match self.os.join() {
            Ok(Some(v)) => Ok(v),
            Ok(None) => Err(Box::new("simulated thread panicked")),
            Err(e) => Err(e),
        }
    }
    pub fn is_finished(&self) -> bool {
        match current() {
            Some((sim, _)) => sim.thread_finished(self.tid),
            None => self.os.is_finished(),
        }
    }
}

thread_local! {
    static PANIC_PAYLOAD: std::cell::RefCell<Option<Box<dyn std::any::Any + Send>>> = const { std::cell::RefCell::new(None) };
}

/// Spawn a simulated thread. Must be called from a simulated thread.
pub fn spawn<T, F>(name: &str, stack: usize, f: F) -> SimJoinHandle<T>
where
    F: FnOnce() -> T + Send + 'static,
    T: Send + 'static,
{
    let (sim, me) = current().expect("simrt::spawn outside a simulation");
    let tid = sim.prepare_child(name, false);
    let simp: usize = sim as *const Sim as usize;
    EXPLICIT_SPAWN.with(|e| e.set(true));
    let os = std::thread::Builder::new()
        .name(name.to_string())
        .stack_size(stack)
        .spawn(move || {
            let sim: &'static Sim = unsafe { &*(simp as *const Sim) };
            sim.child_entry(tid);
            let r = std::panic::catch_unwind(std::panic::AssertUnwindSafe(f));
            let out = match r {
                Ok(v) => Some(v),
                Err(_p) => {
                    sim.mark_panicked(tid);
                    None
                }
            };
            sim.child_exit(tid);
            out
        })
        .expect("spawn simulated thread");
    EXPLICIT_SPAWN.with(|e| e.set(false));
    sim.yield_point(me, Kind::Spawn, true);
    SimJoinHandle { tid, os }
}

pub const DEFAULT_STACK: usize = 2 * 1024 * 1024;

/// Run a simulation: `body` runs as simulated thread 0. Returns when *every* simulated thread
/// has finished. One simulation per process at a time.
pub fn run<T, F>(cfg: SimConfig, body: F) -> (T, Arc<Sim>)
where
    F: FnOnce() -> T + Send + 'static,
    T: Send + 'static,
{
    assert!(CUR.load(Ordering::Acquire).is_null(), "a simulation is already running");
    let mut rng = Rng::stream(cfg.seed, "schedule");
    let mut pct_points = Vec::new();
    if let Strategy::Pct { depth, est_steps } = cfg.strategy {
        for _ in 0..depth {
            pct_points.push(1 + rng.below(est_steps.max(2)));
        }
        pct_points.sort_unstable();
        pct_points.dedup();
    }
    let generation = SIM_GENERATION.fetch_add(1, Ordering::Relaxed) + 1;
    let main_prio = match cfg.strategy {
        Strategy::Pct { .. } => 1_000_000 + rng.below(1_000_000),
        _ => 0,
    };
    let sched = Sched {
        wait_log: None,
        threads: vec![Slot {
            st: St::Runnable,
            name: "main".into(),
            parker: Arc::new(Parker::new()),
            token: false,
            priority: main_prio,
            implicit: false,
            started_at: 0,
            finished_at: None,
            panicked: false,
        }],
        current: 0,
        now: 0,
        timers: BTreeMap::new(),
        timer_seq: 0,
        epoch: 1,
        rng,
        strategy: cfg.strategy.clone(),
        step: 0,
        step_cap: cfg.step_cap,
        trace_hash: 0x1234_5678,
        trace: if cfg.record_trace { Some(Vec::new()) } else { None },
        pct_points,
        pct_low: 1_000_000,
        lock_waiters: HashMap::new(),
        quiescent_waiter: None,
        switches: 0,
        decisions: 0,
        kind_counts: [0; KIND_COUNT],
        preempt_pairs: Default::default(),
        last_kind: vec![Kind::Spawn as u8],
        time_advances: 0,
        max_threads: 1,
    };
    let sim = Arc::new(Sim {
        abandoned: std::sync::atomic::AtomicBool::new(false),
        st: Mutex::new(sched),
        holder: std::sync::atomic::AtomicUsize::new(0),
        cfg,
        generation,
        streams: Mutex::new(BTreeMap::new()),
        probes: Mutex::new(BTreeMap::new()),
        wall_skew_ns: std::sync::atomic::AtomicI64::new(0),
        ext: crate::ext::Ext::default(),
    });
    CUR.store(Arc::as_ptr(&sim) as *mut Sim, Ordering::Release);
    let sim2 = sim.clone();
    let os = std::thread::Builder::new()
        .name("sim-main".into())
        .stack_size(8 * 1024 * 1024)
        .spawn(move || {
            TID.with(|t| t.set(0));
            let r = std::panic::catch_unwind(std::panic::AssertUnwindSafe(body));
            // wait for all other simulated threads before leaving
            sim2.child_exit_main();
            r
        })
        .expect("spawn sim main");
    let r = os.join().expect("sim main thread");
    // all simulated threads are finished (child_exit_main guarantees it); the OS threads may
    // still be unwinding their TLS, which touches nothing of ours.
    if sim.abandoned.load(Ordering::SeqCst) {
        // parked threads still reference the simulation: keep it alive for the rest of the
        // process, which the caller ends after reporting
        std::mem::forget(sim.clone());
    } else {
        CUR.store(std::ptr::null_mut(), Ordering::Release);
    }
    match r {
        Ok(v) => (v, sim),
        Err(p) => std::panic::resume_unwind(p),
    }
}

impl Sim {
    /// Wait (letting simulated time pass) until every other simulated thread has finished.
    pub fn join_all_others(&self, me: usize) {
        loop {
            let target = {
                let g = self.lock();
                g.threads
                    .iter()
                    .enumerate()
                    .find(|(i, s)| *i != me && s.st != St::Finished)
                    .map(|(i, _)| i)
            };
            match target {
                Some(t) => self.block_join(me, t),
                None => return,
            }
        }
    }

    /// Main thread epilogue: wait until all other simulated threads are finished (letting
    /// simulated time pass), then finish.
    fn child_exit_main(&self) {
        let me = 0usize;
        loop {
            if self.abandoned.load(Ordering::SeqCst) {
                break;
            }
            let others = self.live_other_threads(me);
            if others == 0 {
                break;
            }
            // join them one by one
            let target = {
                let g = self.lock();
                g.threads
                    .iter()
                    .enumerate()
                    .find(|(i, s)| *i != me && s.st != St::Finished)
                    .map(|(i, _)| i)
            };
            if let Some(t) = target {
                self.block_join(me, t);
            }
        }
        let mut g = self.lock();
        g.threads[me].st = St::Finished;
        g.threads[me].finished_at = Some(g.now);
        TID.with(|t| t.set(NO_TID));
    }

    /// The OS refused to create the thread prepared with `prepare_child`.
    pub fn abandon_child(&self, tid: usize) {
        let mut g = self.lock();
        g.threads[tid].st = St::Finished;
        g.threads[tid].finished_at = Some(g.now);
    }

    pub fn is_implicit(&self, tid: usize) -> bool {
        self.lock().threads[tid].implicit
    }

    pub fn thread_started_at(&self, tid: usize) -> u64 {
        self.lock().threads[tid].started_at
    }

    pub fn thread_panicked(&self, tid: usize) -> bool {
        self.lock().threads[tid].panicked
    }

    pub fn thread_count(&self) -> usize {
        self.lock().threads.len()
    }
}
