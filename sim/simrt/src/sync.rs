//! Raw mutex and rwlock for `lock_api`, blocking through the simulator's scheduler.
//! Outside a simulation they degrade to yielding spin locks.

use std::sync::atomic::{AtomicBool, AtomicUsize, Ordering};

use crate::sched::{current, suspended, Kind};

pub struct RawMutex {
    locked: AtomicBool,
}

impl RawMutex {
    #[inline]
    fn addr(&self) -> usize {
        self as *const _ as usize
    }
}

unsafe impl lock_api::RawMutex for RawMutex {
    #[allow(clippy::declare_interior_mutable_const)]
    const INIT: Self = RawMutex { locked: AtomicBool::new(false) };
    type GuardMarker = lock_api::GuardSend;

    fn lock(&self) {
        match current() {
            Some((sim, me)) if !suspended() => {
                sim.yield_point(me, Kind::LockAcquire, true);
                loop {
                    if !self.locked.swap(true, Ordering::Acquire) {
                        return;
                    }
                    sim.probe("mutex_contended");
                    sim.block_on_lock(me, self.addr());
                }
            }
            _ => {
                while self.locked.swap(true, Ordering::Acquire) {
                    std::thread::yield_now();
                }
            }
        }
    }

    fn try_lock(&self) -> bool {
        if let Some((sim, me)) = current() {
            sim.yield_point(me, Kind::LockAcquire, true);
        }
        !self.locked.swap(true, Ordering::Acquire)
    }

    unsafe fn unlock(&self) {
        self.locked.store(false, Ordering::Release);
        if let Some((sim, me)) = current() {
            sim.wake_lock_waiters(self.addr());
            if !suspended() {
                sim.yield_point(me, Kind::LockRelease, true);
            }
        }
    }

    fn is_locked(&self) -> bool {
        self.locked.load(Ordering::Relaxed)
    }
}

impl RawMutex {
    /// Release without a scheduling point (the caller blocks right afterwards: `Condvar::wait`
    /// must release the mutex and start waiting in one step).
    fn unlock_quietly(&self) {
        self.locked.store(false, Ordering::Release);
        if let Some((sim, _)) = current() {
            sim.wake_lock_waiters(self.addr());
        }
    }

    /// Try to take the lock until simulated time `deadline`.
    fn lock_until(&self, deadline: u64) -> bool {
        match current() {
            Some((sim, me)) if !suspended() => {
                sim.yield_point(me, Kind::LockAcquire, true);
                loop {
                    if !self.locked.swap(true, Ordering::Acquire) {
                        return true;
                    }
                    if sim.now_ns() >= deadline {
                        return false;
                    }
                    sim.probe("mutex_contended");
                    let _ = sim.wait_on(me, self.addr(), None, Some(deadline));
                }
            }
            _ => {
                let t0 = std::time::Instant::now();
                while self.locked.swap(true, Ordering::Acquire) {
                    if t0.elapsed() > std::time::Duration::from_secs(1) {
                        return false;
                    }
                    std::thread::yield_now();
                }
                true
            }
        }
    }
}

/// Simulated time left until a `std::time::Instant` (std's clocks read the simulated clock on a
/// simulated thread, so the difference is simulated time).
fn deadline_of_instant(t: std::time::Instant) -> u64 {
    let left = t.saturating_duration_since(std::time::Instant::now());
    crate::sched::now_ns().saturating_add(left.as_nanos().min(u64::MAX as u128) as u64)
}

fn deadline_of_duration(d: std::time::Duration) -> u64 {
    crate::sched::now_ns().saturating_add(d.as_nanos().min(u64::MAX as u128) as u64)
}

unsafe impl lock_api::RawMutexFair for RawMutex {
    unsafe fn unlock_fair(&self) {
        // every release wakes all waiters and is followed by a scheduling point; which of them (or
        // the releasing thread) gets the lock next is the scheduler's choice in both variants
        lock_api::RawMutex::unlock(self)
    }
}

unsafe impl lock_api::RawMutexTimed for RawMutex {
    type Duration = std::time::Duration;
    type Instant = std::time::Instant;
    fn try_lock_for(&self, timeout: Self::Duration) -> bool {
        self.lock_until(deadline_of_duration(timeout))
    }
    fn try_lock_until(&self, timeout: Self::Instant) -> bool {
        self.lock_until(deadline_of_instant(timeout))
    }
}

/// `parking_lot::Condvar` on the simulator's wait queues.
#[derive(Default)]
pub struct Condvar {
    /// number of threads waiting (what `notify_*` report)
    waiting: AtomicUsize,
}

#[derive(Clone, Copy, Debug, PartialEq, Eq)]
pub struct WaitTimeoutResult(bool);

impl WaitTimeoutResult {
    pub fn timed_out(&self) -> bool {
        self.0
    }
}

impl Condvar {
    pub const fn new() -> Condvar {
        Condvar { waiting: AtomicUsize::new(0) }
    }

    fn addr(&self) -> usize {
        self as *const _ as usize
    }

    fn wait_inner<T: ?Sized>(&self, guard: &mut MutexGuard<'_, T>, deadline: Option<u64>) -> bool {
        let raw: &RawMutex = unsafe { MutexGuard::mutex(guard).raw() };
        match current() {
            Some((sim, me)) if !suspended() => {
                self.waiting.fetch_add(1, Ordering::SeqCst);
                // release and enqueue without a scheduling point in between: no notification
                // can fall into the gap
                raw.unlock_quietly();
                sim.probe("condvar_wait");
                let timed_out = sim.wait_on(me, self.addr(), None, deadline).unwrap_or(false);
                self.waiting.fetch_sub(1, Ordering::SeqCst);
                lock_api::RawMutex::lock(raw);
                timed_out
            }
            _ => {
                // outside a simulation: give way once (spurious wake-ups are allowed)
                unsafe { lock_api::RawMutex::unlock(raw) };
                std::thread::yield_now();
                lock_api::RawMutex::lock(raw);
                false
            }
        }
    }

    pub fn wait<T: ?Sized>(&self, guard: &mut MutexGuard<'_, T>) {
        self.wait_inner(guard, None);
    }

    pub fn wait_for<T: ?Sized>(&self, guard: &mut MutexGuard<'_, T>, timeout: std::time::Duration) -> WaitTimeoutResult {
        WaitTimeoutResult(self.wait_inner(guard, Some(deadline_of_duration(timeout))))
    }

    pub fn wait_until<T: ?Sized>(&self, guard: &mut MutexGuard<'_, T>, timeout: std::time::Instant) -> WaitTimeoutResult {
        WaitTimeoutResult(self.wait_inner(guard, Some(deadline_of_instant(timeout))))
    }

    pub fn wait_while<T: ?Sized, F: FnMut(&mut T) -> bool>(&self, guard: &mut MutexGuard<'_, T>, mut condition: F) {
        while condition(&mut **guard) {
            self.wait(guard);
        }
    }

    pub fn notify_one(&self) -> bool {
        match current() {
            Some((sim, me)) => {
                let n = sim.futex_wake(self.addr(), 1);
                if !suspended() {
                    sim.yield_point(me, Kind::LockRelease, true);
                }
                n > 0
            }
            None => false,
        }
    }

    pub fn notify_all(&self) -> usize {
        match current() {
            Some((sim, me)) => {
                let n = sim.futex_wake(self.addr(), usize::MAX);
                if !suspended() {
                    sim.yield_point(me, Kind::LockRelease, true);
                }
                n
            }
            None => 0,
        }
    }
}

impl std::fmt::Debug for Condvar {
    fn fmt(&self, f: &mut std::fmt::Formatter<'_>) -> std::fmt::Result {
        f.pad("Condvar { .. }")
    }
}

/// Thread identity for `lock_api::ReentrantMutex`.
pub struct RawThreadId;

unsafe impl lock_api::GetThreadId for RawThreadId {
    #[allow(clippy::declare_interior_mutable_const)]
    const INIT: Self = RawThreadId;
    fn nonzero_thread_id(&self) -> std::num::NonZeroUsize {
        thread_local!(static KEY: u8 = const { 0 });
        KEY.with(|k| std::num::NonZeroUsize::new(k as *const u8 as usize).expect("thread-local address"))
    }
}

const WRITER: usize = 1;
const READER: usize = 2;

pub struct RawRwLock {
    state: AtomicUsize,
}

impl RawRwLock {
    #[inline]
    fn addr(&self) -> usize {
        self as *const _ as usize
    }

    fn try_shared(&self) -> bool {
        let s = self.state.load(Ordering::Acquire);
        if s & WRITER != 0 {
            return false;
        }
        self.state.store(s + READER, Ordering::Release);
        true
    }

    fn try_exclusive(&self) -> bool {
        let s = self.state.load(Ordering::Acquire);
        if s != 0 {
            return false;
        }
        self.state.store(WRITER, Ordering::Release);
        true
    }

    fn try_shared_cas(&self) -> bool {
        let mut s = self.state.load(Ordering::Acquire);
        loop {
            if s & WRITER != 0 {
                return false;
            }
            match self.state.compare_exchange_weak(s, s + READER, Ordering::Acquire, Ordering::Relaxed) {
                Ok(_) => return true,
                Err(x) => s = x,
            }
        }
    }
}

unsafe impl lock_api::RawRwLock for RawRwLock {
    #[allow(clippy::declare_interior_mutable_const)]
    const INIT: Self = RawRwLock { state: AtomicUsize::new(0) };
    type GuardMarker = lock_api::GuardSend;

    fn lock_shared(&self) {
        match current() {
            Some((sim, me)) if !suspended() => {
                sim.yield_point(me, Kind::RwShared, true);
                loop {
                    if self.try_shared() {
                        return;
                    }
                    sim.probe("rwlock_shared_contended");
                    sim.block_on_lock(me, self.addr());
                }
            }
            _ => {
                while !self.try_shared_cas() {
                    std::thread::yield_now();
                }
            }
        }
    }

    fn try_lock_shared(&self) -> bool {
        match current() {
            Some((sim, me)) if !suspended() => {
                sim.yield_point(me, Kind::RwShared, true);
                self.try_shared()
            }
            _ => self.try_shared_cas(),
        }
    }

    unsafe fn unlock_shared(&self) {
        self.state.fetch_sub(READER, Ordering::Release);
        if let Some((sim, me)) = current() {
            sim.wake_lock_waiters(self.addr());
            if !suspended() {
                sim.yield_point(me, Kind::LockRelease, true);
            }
        }
    }

    fn lock_exclusive(&self) {
        match current() {
            Some((sim, me)) if !suspended() => {
                sim.yield_point(me, Kind::RwExclusive, true);
                loop {
                    if self.try_exclusive() {
                        return;
                    }
                    sim.probe("rwlock_exclusive_contended");
                    sim.block_on_lock(me, self.addr());
                }
            }
            _ => {
                while self
                    .state
                    .compare_exchange_weak(0, WRITER, Ordering::Acquire, Ordering::Relaxed)
                    .is_err()
                {
                    std::thread::yield_now();
                }
            }
        }
    }

    fn try_lock_exclusive(&self) -> bool {
        match current() {
            Some((sim, me)) if !suspended() => {
                sim.yield_point(me, Kind::RwExclusive, true);
                self.try_exclusive()
            }
            _ => self
                .state
                .compare_exchange(0, WRITER, Ordering::Acquire, Ordering::Relaxed)
                .is_ok(),
        }
    }

    unsafe fn unlock_exclusive(&self) {
        self.state.store(0, Ordering::Release);
        if let Some((sim, me)) = current() {
            sim.wake_lock_waiters(self.addr());
            if !suspended() {
                sim.yield_point(me, Kind::LockRelease, true);
            }
        }
    }

    fn is_locked(&self) -> bool {
        self.state.load(Ordering::Relaxed) != 0
    }
}

impl RawRwLock {
    fn lock_shared_until(&self, deadline: u64) -> bool {
        match current() {
            Some((sim, me)) if !suspended() => {
                sim.yield_point(me, Kind::RwShared, true);
                loop {
                    if self.try_shared() {
                        return true;
                    }
                    if sim.now_ns() >= deadline {
                        return false;
                    }
                    let _ = sim.wait_on(me, self.addr(), None, Some(deadline));
                }
            }
            _ => self.try_shared_cas(),
        }
    }

    fn lock_exclusive_until(&self, deadline: u64) -> bool {
        match current() {
            Some((sim, me)) if !suspended() => {
                sim.yield_point(me, Kind::RwExclusive, true);
                loop {
                    if self.try_exclusive() {
                        return true;
                    }
                    if sim.now_ns() >= deadline {
                        return false;
                    }
                    let _ = sim.wait_on(me, self.addr(), None, Some(deadline));
                }
            }
            _ => self.state.compare_exchange(0, WRITER, Ordering::Acquire, Ordering::Relaxed).is_ok(),
        }
    }
}

unsafe impl lock_api::RawRwLockFair for RawRwLock {
    unsafe fn unlock_shared_fair(&self) {
        lock_api::RawRwLock::unlock_shared(self)
    }
    unsafe fn unlock_exclusive_fair(&self) {
        lock_api::RawRwLock::unlock_exclusive(self)
    }
}

unsafe impl lock_api::RawRwLockTimed for RawRwLock {
    type Duration = std::time::Duration;
    type Instant = std::time::Instant;
    fn try_lock_shared_for(&self, timeout: Self::Duration) -> bool {
        self.lock_shared_until(deadline_of_duration(timeout))
    }
    fn try_lock_shared_until(&self, timeout: Self::Instant) -> bool {
        self.lock_shared_until(deadline_of_instant(timeout))
    }
    fn try_lock_exclusive_for(&self, timeout: Self::Duration) -> bool {
        self.lock_exclusive_until(deadline_of_duration(timeout))
    }
    fn try_lock_exclusive_until(&self, timeout: Self::Instant) -> bool {
        self.lock_exclusive_until(deadline_of_instant(timeout))
    }
}

// readers never wait for queued writers in this lock, so a recursive read lock is a read lock
unsafe impl lock_api::RawRwLockRecursive for RawRwLock {
    fn lock_shared_recursive(&self) {
        lock_api::RawRwLock::lock_shared(self)
    }
    fn try_lock_shared_recursive(&self) -> bool {
        lock_api::RawRwLock::try_lock_shared(self)
    }
}

unsafe impl lock_api::RawRwLockDowngrade for RawRwLock {
    unsafe fn downgrade(&self) {
        self.state.store(READER, Ordering::Release);
        if let Some((sim, _me)) = current() {
            sim.wake_lock_waiters(self.addr());
        }
    }
}

pub type Mutex<T> = lock_api::Mutex<RawMutex, T>;
pub type MutexGuard<'a, T> = lock_api::MutexGuard<'a, RawMutex, T>;
pub type RwLock<T> = lock_api::RwLock<RawRwLock, T>;
pub type RwLockReadGuard<'a, T> = lock_api::RwLockReadGuard<'a, RawRwLock, T>;
pub type RwLockWriteGuard<'a, T> = lock_api::RwLockWriteGuard<'a, RawRwLock, T>;
