//! Raw mutex and rwlock for `lock_api`, blocking through the simulator's scheduler.
//! Outside a simulation they degrade to yielding spin locks.

use std::sync::atomic::{AtomicBool, AtomicUsize, Ordering};

use crate::sched::{current, suspended, Kind};

pub struct RawMutex {
    locked: AtomicBool,
}

impl RawMutex {
    #[inline]
    fn addr(&self) -> usize {
        self as *const _ as usize
    }
}

unsafe impl lock_api::RawMutex for RawMutex {
    #[allow(clippy::declare_interior_mutable_const)]
    const INIT: Self = RawMutex { locked: AtomicBool::new(false) };
    type GuardMarker = lock_api::GuardSend;

    fn lock(&self) {
        match current() {
            Some((sim, me)) if !suspended() => {
                sim.yield_point(me, Kind::LockAcquire, true);
                loop {
                    if !self.locked.swap(true, Ordering::Acquire) {
                        return;
                    }
                    sim.probe("mutex_contended");
                    sim.block_on_lock(me, self.addr());
                }
            }
            _ => {
                while self.locked.swap(true, Ordering::Acquire) {
                    std::thread::yield_now();
                }
            }
        }
    }

    fn try_lock(&self) -> bool {
        if let Some((sim, me)) = current() {
            sim.yield_point(me, Kind::LockAcquire, true);
        }
        !self.locked.swap(true, Ordering::Acquire)
    }

    unsafe fn unlock(&self) {
        self.locked.store(false, Ordering::Release);
        if let Some((sim, me)) = current() {
            sim.wake_lock_waiters(self.addr());
            if !suspended() {
                sim.yield_point(me, Kind::LockRelease, true);
            }
        }
    }

    fn is_locked(&self) -> bool {
        self.locked.load(Ordering::Relaxed)
    }
}

const WRITER: usize = 1;
const READER: usize = 2;

pub struct RawRwLock {
    state: AtomicUsize,
}

impl RawRwLock {
    #[inline]
    fn addr(&self) -> usize {
        self as *const _ as usize
    }

    fn try_shared(&self) -> bool {
        let s = self.state.load(Ordering::Acquire);
        if s & WRITER != 0 {
            return false;
        }
        self.state.store(s + READER, Ordering::Release);
        true
    }

    fn try_exclusive(&self) -> bool {
        let s = self.state.load(Ordering::Acquire);
        if s != 0 {
            return false;
        }
        self.state.store(WRITER, Ordering::Release);
        true
    }

    fn try_shared_cas(&self) -> bool {
        let mut s = self.state.load(Ordering::Acquire);
        loop {
            if s & WRITER != 0 {
                return false;
            }
            match self.state.compare_exchange_weak(s, s + READER, Ordering::Acquire, Ordering::Relaxed) {
                Ok(_) => return true,
                Err(x) => s = x,
            }
        }
    }
}

unsafe impl lock_api::RawRwLock for RawRwLock {
    #[allow(clippy::declare_interior_mutable_const)]
    const INIT: Self = RawRwLock { state: AtomicUsize::new(0) };
    type GuardMarker = lock_api::GuardSend;

    fn lock_shared(&self) {
        match current() {
            Some((sim, me)) if !suspended() => {
                sim.yield_point(me, Kind::RwShared, true);
                loop {
                    if self.try_shared() {
                        return;
                    }
                    sim.probe("rwlock_shared_contended");
                    sim.block_on_lock(me, self.addr());
                }
            }
            _ => {
                while !self.try_shared_cas() {
                    std::thread::yield_now();
                }
            }
        }
    }

    fn try_lock_shared(&self) -> bool {
        match current() {
            Some((sim, me)) if !suspended() => {
                sim.yield_point(me, Kind::RwShared, true);
                self.try_shared()
            }
            _ => self.try_shared_cas(),
        }
    }

    unsafe fn unlock_shared(&self) {
        self.state.fetch_sub(READER, Ordering::Release);
        if let Some((sim, me)) = current() {
            sim.wake_lock_waiters(self.addr());
            if !suspended() {
                sim.yield_point(me, Kind::LockRelease, true);
            }
        }
    }

    fn lock_exclusive(&self) {
        match current() {
            Some((sim, me)) if !suspended() => {
                sim.yield_point(me, Kind::RwExclusive, true);
                loop {
                    if self.try_exclusive() {
                        return;
                    }
                    sim.probe("rwlock_exclusive_contended");
                    sim.block_on_lock(me, self.addr());
                }
            }
            _ => {
                while self
                    .state
                    .compare_exchange_weak(0, WRITER, Ordering::Acquire, Ordering::Relaxed)
                    .is_err()
                {
                    std::thread::yield_now();
                }
            }
        }
    }

    fn try_lock_exclusive(&self) -> bool {
        match current() {
            Some((sim, me)) if !suspended() => {
                sim.yield_point(me, Kind::RwExclusive, true);
                self.try_exclusive()
            }
            _ => self
                .state
                .compare_exchange(0, WRITER, Ordering::Acquire, Ordering::Relaxed)
                .is_ok(),
        }
    }

    unsafe fn unlock_exclusive(&self) {
        self.state.store(0, Ordering::Release);
        if let Some((sim, me)) = current() {
            sim.wake_lock_waiters(self.addr());
            if !suspended() {
                sim.yield_point(me, Kind::LockRelease, true);
            }
        }
    }

    fn is_locked(&self) -> bool {
        self.state.load(Ordering::Relaxed) != 0
    }
}

unsafe impl lock_api::RawRwLockDowngrade for RawRwLock {
    unsafe fn downgrade(&self) {
        self.state.store(READER, Ordering::Release);
        if let Some((sim, _me)) = current() {
            sim.wake_lock_waiters(self.addr());
        }
    }
}

pub type Mutex<T> = lock_api::Mutex<RawMutex, T>;
pub type MutexGuard<'a, T> = lock_api::MutexGuard<'a, RawMutex, T>;
pub type RwLock<T> = lock_api::RwLock<RawRwLock, T>;
pub type RwLockReadGuard<'a, T> = lock_api::RwLockReadGuard<'a, RawRwLock, T>;
pub type RwLockWriteGuard<'a, T> = lock_api::RwLockWriteGuard<'a, RawRwLock, T>;
