//! simrt — deterministic simulation runtime: seeded scheduler over real OS threads (one runs
//! at a time), discrete-event clock, async executor, TCP model, file-system shadow.

pub mod exec;
pub mod ext;
pub mod fsim;
pub mod net;
pub mod rng;
pub mod sched;
pub mod sync;
pub mod time;

pub use sched::{current, in_sim, run, spawn, untracked, yield_now, Kind, Sim, SimConfig, Strategy};
