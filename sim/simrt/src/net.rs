//! In-memory TCP model: reliable, ordered byte streams with bounded buffers (partial writes and
//! back-pressure), per-segment delivery delay on the simulated clock, arbitrary read
//! segmentation, spurious `Pending`, orderly close, reset, listener backlog and accept errors.

use std::collections::{BTreeMap, VecDeque};
use std::io;
use std::net::{IpAddr, Ipv4Addr, SocketAddr};
use std::sync::{Arc, Mutex as StdMutex};
use std::task::{Poll, Wake, Waker};

use crate::sched::{current, Kind, Sim, TimerTarget, Why};

fn lock<T>(m: &StdMutex<T>) -> std::sync::MutexGuard<'_, T> {
    m.lock().unwrap_or_else(|e| e.into_inner())
}

#[derive(Clone, Copy, Debug, PartialEq, Eq)]
pub enum ReadMode {
    /// every read returns exactly one byte
    OneByte,
    /// at most this many bytes per read
    Mss(usize),
    /// everything that has arrived
    All,
    /// a fresh random size for every read
    Random,
}

#[derive(Clone, Debug)]
pub struct NetCfg {
    pub capacity: usize,
    pub max_delay_ns: u64,
    pub read_mode: ReadMode,
    pub spurious_pending_per_mille: u32,
    pub accept_error_per_mille: u32,
    pub max_accept_errors_in_row: u32,
    pub backlog: usize,
    /// writes accept at most this many bytes at once (0 = no extra limit)
    pub write_chunk: usize,
}

impl Default for NetCfg {
    fn default() -> Self {
        NetCfg {
            capacity: 64 * 1024,
            max_delay_ns: 0,
            read_mode: ReadMode::All,
            spurious_pending_per_mille: 0,
            accept_error_per_mille: 0,
            max_accept_errors_in_row: 2,
            backlog: 128,
            write_chunk: 0,
        }
    }
}

#[derive(Default)]
pub struct NetState {
    listeners: BTreeMap<u16, Arc<ListenerInner>>,
    pub cfg: NetCfg,
    pub conn_ids: u64,
    pub counters: BTreeMap<&'static str, u64>,
}

impl NetState {
    fn count(&mut self, k: &'static str) {
        *self.counters.entry(k).or_insert(0) += 1;
    }
}

pub fn configure(sim: &Sim, cfg: NetCfg) {
    lock(&sim.ext.net).cfg = cfg;
}

fn count(sim: &Sim, k: &'static str) {
    lock(&sim.ext.net).count(k);
}

pub fn counters(sim: &Sim) -> BTreeMap<&'static str, u64> {
    lock(&sim.ext.net).counters.clone()
}

pub enum Waiter {
    Waker(Waker),
    Thread(usize),
}

impl Waiter {
    fn wake(self) {
        match self {
            Waiter::Waker(w) => w.wake(),
            Waiter::Thread(t) => {
                if let Some((sim, _)) = current() {
                    sim.wake_thread(t);
                    sim.note_progress();
                }
            }
        }
    }
}

struct Pipe {
    segs: VecDeque<(u64, VecDeque<u8>)>,
    buffered: usize,
    write_closed: bool,
    read_closed: bool,
    reset: bool,
    read_waiter: Option<Waiter>,
    write_waiter: Option<Waiter>,
    last_deliver_at: u64,
    /// deadline of the one arrival timer registered for this pipe (None: none pending)
    timer_deadline: Option<u64>,
    pub total_written: u64,
    pub total_read: u64,
}

impl Pipe {
    fn new() -> Pipe {
        Pipe {
            segs: VecDeque::new(),
            buffered: 0,
            write_closed: false,
            read_closed: false,
            reset: false,
            read_waiter: None,
            write_waiter: None,
            last_deliver_at: 0,
            timer_deadline: None,
            total_written: 0,
            total_read: 0,
        }
    }
    fn arrived(&self, now: u64) -> usize {
        self.segs.iter().take_while(|(t, _)| *t <= now).map(|(_, d)| d.len()).sum()
    }
}

pub struct ConnInner {
    pub id: u64,
    /// index 0: client -> server, index 1: server -> client
    pipes: [StdMutex<Pipe>; 2],
    cfg: NetCfg,
}

/// Waker stored in the timer heap: when the segment arrives, wake whoever waits to read.
struct ArrivalWake {
    conn: Arc<ConnInner>,
    dir: usize,
}

impl Wake for ArrivalWake {
    fn wake(self: Arc<Self>) {
        let w = {
            let mut p = lock(&self.conn.pipes[self.dir]);
            p.timer_deadline = None;
            p.read_waiter.take()
        };
        if let Some(w) = w {
            w.wake();
        }
    }
}

#[derive(Clone, Copy, PartialEq, Eq, Debug)]
pub enum Side {
    Client,
    Server,
}

pub struct Endpoint {
    conn: Arc<ConnInner>,
    side: Side,
    closed: bool,
}

impl Endpoint {
    fn out_dir(&self) -> usize {
        match self.side {
            Side::Client => 0,
            Side::Server => 1,
        }
    }
    fn in_dir(&self) -> usize {
        1 - self.out_dir()
    }
    pub fn conn_id(&self) -> u64 {
        self.conn.id
    }
    pub fn side(&self) -> Side {
        self.side
    }

    pub fn poll_read(&self, buf: &mut [u8], waiter: impl FnOnce() -> Waiter) -> Poll<io::Result<usize>> {
        let (sim, me) = match current() {
            Some(x) => x,
            None => return Poll::Ready(Err(io::Error::new(io::ErrorKind::Other, "no simulation"))),
        };
        sim.yield_point(me, Kind::NetRead, false);
        if buf.is_empty() {
            return Poll::Ready(Ok(0));
        }
        let cfg = &self.conn.cfg;
        if cfg.spurious_pending_per_mille > 0 {
            let hit = sim.with_stream("net", |r| r.below(1000) < cfg.spurious_pending_per_mille as u64);
            if hit {
                count(sim, "spurious_pending");
                waiter().wake();
                return Poll::Pending;
            }
        }
        let now = sim.now_ns();
        let mut p = lock(&self.conn.pipes[self.in_dir()]);
        if p.reset {
            return Poll::Ready(Err(io::Error::new(io::ErrorKind::ConnectionReset, "connection reset by peer")));
        }
        let arrived = p.arrived(now);
        if arrived > 0 {
            let max = arrived.min(buf.len());
            let n = match cfg.read_mode {
                ReadMode::OneByte => 1,
                ReadMode::Mss(m) => max.min(m.max(1)),
                ReadMode::All => max,
                ReadMode::Random => {
                    let c = sim.with_stream("net", |r| r.below(4));
                    match c {
                        0 => 1,
                        1 => 1 + sim.with_stream("net", |r| r.usize_below(max)),
                        _ => max,
                    }
                }
            };
            let mut copied = 0;
            while copied < n {
                let (_, front) = p.segs.front_mut().unwrap();
                while copied < n {
                    match front.pop_front() {
                        Some(b) => {
                            buf[copied] = b;
                            copied += 1;
                        }
                        None => break,
                    }
                }
                if front.is_empty() {
                    p.segs.pop_front();
                }
            }
            p.buffered -= n;
            p.total_read += n as u64;
            let w = p.write_waiter.take();
            drop(p);
            sim.note_progress();
            if n < arrived {
                count(sim, "read_partial_of_arrived");
            }
            if let Some(w) = w {
                w.wake();
            }
            return Poll::Ready(Ok(n));
        }
        if let Some((t, _)) = p.segs.front() {
            // data in flight: wake up when it arrives (one timer per pipe at a time)
            let t = *t;
            p.read_waiter = Some(waiter());
            let need = !matches!(p.timer_deadline, Some(d) if d <= t);
            if need {
                p.timer_deadline = Some(t);
            }
            drop(p);
            if need {
                let aw = Arc::new(ArrivalWake { conn: self.conn.clone(), dir: self.in_dir() });
                sim.add_timer(t, TimerTarget::Waker(Waker::from(aw)));
            }
            return Poll::Pending;
        }
        if p.write_closed {
            return Poll::Ready(Ok(0));
        }
        p.read_waiter = Some(waiter());
        Poll::Pending
    }

    pub fn poll_write(&self, data: &[u8], waiter: impl FnOnce() -> Waiter) -> Poll<io::Result<usize>> {
        let (sim, me) = match current() {
            Some(x) => x,
            None => return Poll::Ready(Err(io::Error::new(io::ErrorKind::Other, "no simulation"))),
        };
        sim.yield_point(me, Kind::NetWrite, false);
        if data.is_empty() {
            return Poll::Ready(Ok(0));
        }
        let cfg = &self.conn.cfg;
        let now = sim.now_ns();
        let mut p = lock(&self.conn.pipes[self.out_dir()]);
        if p.reset {
            return Poll::Ready(Err(io::Error::new(io::ErrorKind::ConnectionReset, "connection reset by peer")));
        }
        if p.write_closed || p.read_closed {
            return Poll::Ready(Err(io::Error::new(io::ErrorKind::BrokenPipe, "broken pipe")));
        }
        let space = cfg.capacity.saturating_sub(p.buffered);
        if space == 0 {
            p.write_waiter = Some(waiter());
            drop(p);
            count(sim, "write_backpressure_pending");
            return Poll::Pending;
        }
        let mut n = space.min(data.len());
        if cfg.write_chunk > 0 {
            n = n.min(cfg.write_chunk);
        }
        if n < data.len() {
            count(sim, "partial_write");
        }
        let delay = if cfg.max_delay_ns > 0 { sim.with_stream("net", |r| r.below(cfg.max_delay_ns + 1)) } else { 0 };
        let at = (now + delay).max(p.last_deliver_at);
        p.last_deliver_at = at;
        p.segs.push_back((at, data[..n].iter().copied().collect()));
        p.buffered += n;
        p.total_written += n as u64;
        if at <= now {
            let w = p.read_waiter.take();
            drop(p);
            sim.note_progress();
            if let Some(w) = w {
                w.wake();
            }
        } else {
            // a reader that is already waiting needs a timer for the first segment in flight
            let front = p.segs.front().map(|(t, _)| *t).unwrap_or(at);
            let need = p.read_waiter.is_some() && !matches!(p.timer_deadline, Some(d) if d <= front);
            if need {
                p.timer_deadline = Some(front);
            }
            drop(p);
            sim.note_progress();
            if need {
                let aw = Arc::new(ArrivalWake { conn: self.conn.clone(), dir: self.out_dir() });
                sim.add_timer(front, TimerTarget::Waker(Waker::from(aw)));
            }
            count(sim, "delayed_segment");
        }
        Poll::Ready(Ok(n))
    }

    /// Orderly close of the sending direction (FIN after the data already written).
    pub fn shutdown_write(&self) {
        let w = {
            let mut p = lock(&self.conn.pipes[self.out_dir()]);
            if p.write_closed {
                return;
            }
            p.write_closed = true;
            p.read_waiter.take()
        };
        if let Some((sim, _)) = current() {
            sim.note_progress();
        }
        if let Some(w) = w {
            w.wake();
        }
    }

    /// Abortive close: both directions are destroyed, the peer sees ECONNRESET.
    pub fn reset(&mut self) {
        self.closed = true;
        let mut ws = Vec::new();
        for d in 0..2 {
            let mut p = lock(&self.conn.pipes[d]);
            p.reset = true;
            p.segs.clear();
            p.buffered = 0;
            if let Some(w) = p.read_waiter.take() {
                ws.push(w);
            }
            if let Some(w) = p.write_waiter.take() {
                ws.push(w);
            }
        }
        if let Some((sim, _)) = current() {
            sim.note_progress();
            count(sim, "conn_reset");
        }
        for w in ws {
            w.wake();
        }
    }

    fn close(&mut self) {
        if self.closed {
            return;
        }
        self.closed = true;
        let mut ws = Vec::new();
        {
            let mut p = lock(&self.conn.pipes[self.out_dir()]);
            p.write_closed = true;
            if let Some(w) = p.read_waiter.take() {
                ws.push(w);
            }
        }
        {
            let mut p = lock(&self.conn.pipes[self.in_dir()]);
            p.read_closed = true;
            if let Some(w) = p.write_waiter.take() {
                ws.push(w);
            }
        }
        if let Some((sim, _)) = current() {
            sim.note_progress();
        }
        for w in ws {
            w.wake();
        }
    }

    /// bytes written by this side so far / read by this side so far
    pub fn totals(&self) -> (u64, u64) {
        let w = lock(&self.conn.pipes[self.out_dir()]).total_written;
        let r = lock(&self.conn.pipes[self.in_dir()]).total_read;
        (w, r)
    }

    pub fn peer_closed_write(&self) -> bool {
        lock(&self.conn.pipes[self.in_dir()]).write_closed
    }

    // ---- blocking flavour for simulated client threads -----------------------------------

    pub fn read_blocking(&self, buf: &mut [u8]) -> io::Result<usize> {
        let (sim, me) = current().expect("blocking read outside sim");
        loop {
            match self.poll_read(buf, || Waiter::Thread(me)) {
                Poll::Ready(r) => return r,
                Poll::Pending => sim.block(me, Why::Net),
            }
        }
    }

    pub fn write_blocking(&self, data: &[u8]) -> io::Result<usize> {
        let (sim, me) = current().expect("blocking write outside sim");
        loop {
            match self.poll_write(data, || Waiter::Thread(me)) {
                Poll::Ready(r) => return r,
                Poll::Pending => sim.block(me, Why::Net),
            }
        }
    }

    pub fn write_all_blocking(&self, mut data: &[u8]) -> io::Result<()> {
        while !data.is_empty() {
            let n = self.write_blocking(data)?;
            data = &data[n..];
        }
        Ok(())
    }

    /// Readiness for reading without consuming anything (`TcpStream::readable`): ready when data
    /// has arrived, at end of stream and after a reset; otherwise the waiter is registered exactly
    /// as `poll_read` would register it.
    pub fn poll_read_ready(&self, waiter: impl FnOnce() -> Waiter) -> Poll<io::Result<()>> {
        let (sim, me) = match current() {
            Some(x) => x,
            None => return Poll::Ready(Err(io::Error::new(io::ErrorKind::Other, "no simulation"))),
        };
        sim.yield_point(me, Kind::NetRead, false);
        let now = sim.now_ns();
        let mut p = lock(&self.conn.pipes[self.in_dir()]);
        if p.reset || p.arrived(now) > 0 {
            return Poll::Ready(Ok(()));
        }
        if let Some((t, _)) = p.segs.front() {
            let t = *t;
            p.read_waiter = Some(waiter());
            let need = !matches!(p.timer_deadline, Some(d) if d <= t);
            if need {
                p.timer_deadline = Some(t);
            }
            drop(p);
            if need {
                let aw = Arc::new(ArrivalWake { conn: self.conn.clone(), dir: self.in_dir() });
                sim.add_timer(t, TimerTarget::Waker(Waker::from(aw)));
            }
            return Poll::Pending;
        }
        if p.write_closed {
            return Poll::Ready(Ok(()));
        }
        p.read_waiter = Some(waiter());
        Poll::Pending
    }

    /// Readiness for writing (`TcpStream::writable`): ready when the pipe has room or a write
    /// would fail at once.
    pub fn poll_write_ready(&self, waiter: impl FnOnce() -> Waiter) -> Poll<io::Result<()>> {
        let (sim, me) = match current() {
            Some(x) => x,
            None => return Poll::Ready(Err(io::Error::new(io::ErrorKind::Other, "no simulation"))),
        };
        sim.yield_point(me, Kind::NetWrite, false);
        let mut p = lock(&self.conn.pipes[self.out_dir()]);
        if p.reset || p.write_closed || p.read_closed || self.conn.cfg.capacity > p.buffered {
            return Poll::Ready(Ok(()));
        }
        p.write_waiter = Some(waiter());
        Poll::Pending
    }

    /// Non-blocking probe: how many bytes could be read right now (arrived), and whether EOF
    /// or reset would be reported.
    pub fn readable_now(&self) -> (usize, bool, bool) {
        let now = crate::sched::now_ns();
        let p = lock(&self.conn.pipes[self.in_dir()]);
        (p.arrived(now), p.write_closed && p.segs.is_empty(), p.reset)
    }
}

impl Drop for Endpoint {
    fn drop(&mut self) {
        self.close();
    }
}

fn new_conn(sim: &Sim) -> Arc<ConnInner> {
    let mut ns = lock(&sim.ext.net);
    ns.conn_ids += 1;
    Arc::new(ConnInner { id: ns.conn_ids, pipes: [StdMutex::new(Pipe::new()), StdMutex::new(Pipe::new())], cfg: ns.cfg.clone() })
}

/// A connected pair without a listener (used to test `Connection` alone).
pub fn pair() -> (Endpoint, Endpoint) {
    let (sim, _) = current().expect("net::pair outside sim");
    let c = new_conn(sim);
    (Endpoint { conn: c.clone(), side: Side::Client, closed: false }, Endpoint { conn: c, side: Side::Server, closed: false })
}

pub struct ListenerInner {
    pub port: u16,
    st: StdMutex<ListenerState>,
}

struct ListenerState {
    backlog: VecDeque<Arc<ConnInner>>,
    cap: usize,
    accept_waiter: Option<Waiter>,
    connect_waiters: VecDeque<Waiter>,
    closed: bool,
    errors_in_row: u32,
    accepted: u64,
}

pub struct Listener {
    inner: Arc<ListenerInner>,
}

pub fn bind(port: u16) -> io::Result<Listener> {
    let (sim, me) = match current() {
        Some(x) => x,
        None => return Err(io::Error::new(io::ErrorKind::Other, "no simulation")),
    };
    sim.yield_point(me, Kind::NetOther, true);
    let mut ns = lock(&sim.ext.net);
    if ns.listeners.contains_key(&port) {
        return Err(io::Error::new(io::ErrorKind::AddrInUse, "address in use"));
    }
    let cap = ns.cfg.backlog.max(1);
    let inner = Arc::new(ListenerInner {
        port,
        st: StdMutex::new(ListenerState {
            backlog: VecDeque::new(),
            cap,
            accept_waiter: None,
            connect_waiters: VecDeque::new(),
            closed: false,
            errors_in_row: 0,
            accepted: 0,
        }),
    });
    ns.listeners.insert(port, inner.clone());
    Ok(Listener { inner })
}

impl Listener {
    pub fn port(&self) -> u16 {
        self.inner.port
    }

    pub fn poll_accept(&self, waiter: impl FnOnce() -> Waiter) -> Poll<io::Result<(Endpoint, SocketAddr)>> {
        let (sim, me) = match current() {
            Some(x) => x,
            None => return Poll::Ready(Err(io::Error::new(io::ErrorKind::Other, "no simulation"))),
        };
        sim.yield_point(me, Kind::NetOther, false);
        let (pm, max_row) = {
            let ns = lock(&sim.ext.net);
            (ns.cfg.accept_error_per_mille, ns.cfg.max_accept_errors_in_row)
        };
        let mut st = lock(&self.inner.st);
        if st.backlog.is_empty() {
            st.accept_waiter = Some(waiter());
            return Poll::Pending;
        }
        if pm > 0 && st.errors_in_row < max_row {
            let hit = sim.with_stream("net", |r| r.below(1000) < pm as u64);
            if hit {
                st.errors_in_row += 1;
                drop(st);
                count(sim, "accept_error");
                let e = if sim.with_stream("net", |r| r.one_in(2)) {
                    io::Error::from_raw_os_error(libc::EMFILE)
                } else {
                    io::Error::from_raw_os_error(libc::ECONNABORTED)
                };
                return Poll::Ready(Err(e));
            }
        }
        st.errors_in_row = 0;
        let c = st.backlog.pop_front().unwrap();
        st.accepted += 1;
        let cw = st.connect_waiters.pop_front();
        drop(st);
        sim.note_progress();
        if let Some(w) = cw {
            w.wake();
        }
        let addr = SocketAddr::new(IpAddr::V4(Ipv4Addr::new(127, 0, 0, 1)), 40_000 + (c.id % 20_000) as u16);
        Poll::Ready(Ok((Endpoint { conn: c, side: Side::Server, closed: false }, addr)))
    }

    pub fn accepted(&self) -> u64 {
        lock(&self.inner.st).accepted
    }
}

impl Drop for Listener {
    fn drop(&mut self) {
        let (pending, waiters) = {
            let mut st = lock(&self.inner.st);
            st.closed = true;
            let p: Vec<_> = st.backlog.drain(..).collect();
            let w: Vec<_> = st.connect_waiters.drain(..).collect();
            (p, w)
        };
        if let Some((sim, _)) = current() {
            lock(&sim.ext.net).listeners.remove(&self.inner.port);
            sim.note_progress();
        }
        // connections never accepted are reset
        for c in pending {
            let mut ep = Endpoint { conn: c, side: Side::Server, closed: false };
            ep.reset();
        }
        for w in waiters {
            w.wake();
        }
    }
}

pub fn poll_connect(port: u16, waiter: impl FnOnce() -> Waiter) -> Poll<io::Result<Endpoint>> {
    let (sim, me) = match current() {
        Some(x) => x,
        None => return Poll::Ready(Err(io::Error::new(io::ErrorKind::Other, "no simulation"))),
    };
    sim.yield_point(me, Kind::NetOther, false);
    let l = match lock(&sim.ext.net).listeners.get(&port) {
        Some(l) => l.clone(),
        None => return Poll::Ready(Err(io::Error::new(io::ErrorKind::ConnectionRefused, "connection refused"))),
    };
    let mut st = lock(&l.st);
    if st.closed {
        return Poll::Ready(Err(io::Error::new(io::ErrorKind::ConnectionRefused, "connection refused")));
    }
    if st.backlog.len() >= st.cap {
        st.connect_waiters.push_back(waiter());
        drop(st);
        count(sim, "connect_backlog_wait");
        return Poll::Pending;
    }
    drop(st);
    let c = new_conn(sim);
    let mut st = lock(&l.st);
    st.backlog.push_back(c.clone());
    let aw = st.accept_waiter.take();
    drop(st);
    sim.note_progress();
    if let Some(w) = aw {
        w.wake();
    }
    Poll::Ready(Ok(Endpoint { conn: c, side: Side::Client, closed: false }))
}

pub fn connect_blocking(port: u16) -> io::Result<Endpoint> {
    let (sim, me) = current().expect("connect outside sim");
    loop {
        match poll_connect(port, || Waiter::Thread(me)) {
            Poll::Ready(r) => return r,
            Poll::Pending => sim.block(me, Why::Net),
        }
    }
}

pub fn listener_exists(port: u16) -> bool {
    match current() {
        Some((sim, _)) => lock(&sim.ext.net).listeners.contains_key(&port),
        None => false,
    }
}
