//! Per-simulation state owned by the other modules.
use std::sync::Mutex;

#[derive(Default)]
pub struct Ext {
    pub fs: Mutex<crate::fsim::FsState>,
    pub net: Mutex<crate::net::NetState>,
    pub exec: Mutex<crate::exec::ExecState>,
}
