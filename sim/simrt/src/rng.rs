//! Seeded PRNG (xoshiro256**, seeded through splitmix64) and labelled stream derivation.
//! Every random choice of a simulated run comes from one of these streams.

#[inline]
pub fn splitmix64(x: &mut u64) -> u64 {
    *x = x.wrapping_add(0x9E37_79B9_7F4A_7C15);
    let mut z = *x;
    z = (z ^ (z >> 30)).wrapping_mul(0xBF58_476D_1CE4_E5B9);
    z = (z ^ (z >> 27)).wrapping_mul(0x94D0_49BB_1331_11EB);
    z ^ (z >> 31)
}

/// FNV-1a over bytes; used for labels and coverage hashes (never for security).
pub fn fnv1a(bytes: &[u8]) -> u64 {
    let mut h: u64 = 0xcbf2_9ce4_8422_2325;
    for b in bytes {
        h ^= *b as u64;
        h = h.wrapping_mul(0x0000_0100_0000_01B3);
    }
    h
}

#[inline]
pub fn mix(a: u64, b: u64) -> u64 {
    let mut x = a ^ b.rotate_left(29) ^ 0x5851_F42D_4C95_7F2D;
    splitmix64(&mut x)
}

/// Seed of the stream `label` derived from a run seed.
pub fn derive(seed: u64, label: &str) -> u64 {
    mix(seed, fnv1a(label.as_bytes()))
}

/// Seed of run `index` of check `check` in batch `batch_seed`.
pub fn run_seed(batch_seed: u64, check: &str, index: u64) -> u64 {
    mix(mix(batch_seed, fnv1a(check.as_bytes())), index)
}

#[derive(Clone, Debug)]
pub struct Rng {
    s: [u64; 4],
}

impl Rng {
    pub fn new(seed: u64) -> Self {
        let mut x = seed;
        let s = [
            splitmix64(&mut x),
            splitmix64(&mut x),
            splitmix64(&mut x),
            splitmix64(&mut x),
        ];
        Rng { s }
    }

    pub fn stream(seed: u64, label: &str) -> Self {
        Rng::new(derive(seed, label))
    }

    #[inline]
    pub fn next_u64(&mut self) -> u64 {
        let result = self.s[1].wrapping_mul(5).rotate_left(7).wrapping_mul(9);
        let t = self.s[1] << 17;
        self.s[2] ^= self.s[0];
        self.s[3] ^= self.s[1];
        self.s[1] ^= self.s[2];
        self.s[0] ^= self.s[3];
        self.s[2] ^= t;
        self.s[3] = self.s[3].rotate_left(45);
        result
    }

    /// Uniform in `0..n` (n > 0).
    #[inline]
    pub fn below(&mut self, n: u64) -> u64 {
        debug_assert!(n > 0);
        // multiply-shift; bias is irrelevant for our purposes
        ((self.next_u64() as u128 * n as u128) >> 64) as u64
    }

    /// Uniform in `lo..=hi`.
    pub fn range(&mut self, lo: u64, hi: u64) -> u64 {
        if hi <= lo {
            return lo;
        }
        lo + self.below(hi - lo + 1)
    }

    pub fn usize_below(&mut self, n: usize) -> usize {
        self.below(n as u64) as usize
    }

    pub fn f64(&mut self) -> f64 {
        (self.next_u64() >> 11) as f64 / (1u64 << 53) as f64
    }

    pub fn chance(&mut self, p: f64) -> bool {
        self.f64() < p
    }

    pub fn one_in(&mut self, n: u64) -> bool {
        self.below(n) == 0
    }

    pub fn pick<'a, T>(&mut self, xs: &'a [T]) -> &'a T {
        &xs[self.usize_below(xs.len())]
    }

    /// Pick an index according to integer weights.
    pub fn weighted(&mut self, weights: &[u32]) -> usize {
        let total: u64 = weights.iter().map(|w| *w as u64).sum();
        let mut r = self.below(total.max(1));
        for (i, w) in weights.iter().enumerate() {
            if r < *w as u64 {
                return i;
            }
            r -= *w as u64;
        }
        weights.len() - 1
    }

    pub fn fill(&mut self, buf: &mut [u8]) {
        for chunk in buf.chunks_mut(8) {
            let v = self.next_u64().to_le_bytes();
            chunk.copy_from_slice(&v[..chunk.len()]);
        }
    }
}
