//! `tokio::net` over the simulator's TCP model.
use std::future::Future;
use std::io;
use std::net::{IpAddr, SocketAddr};
use std::pin::Pin;
use std::task::{Context, Poll};

use real_tokio::io::{AsyncRead, AsyncWrite, ReadBuf};
use simrt::net::{self as snet, Endpoint, Waiter};

/// Anything that names a port of the simulated host.
pub trait ToSocketAddrs {
    fn sim_port(&self) -> io::Result<u16>;
}

fn port_of_str(s: &str) -> io::Result<u16> {
    s.rsplit(':')
        .next()
        .and_then(|p| p.parse::<u16>().ok())
        .ok_or_else(|| io::Error::new(io::ErrorKind::InvalidInput, "invalid socket address"))
}

impl ToSocketAddrs for str {
    fn sim_port(&self) -> io::Result<u16> {
        port_of_str(self)
    }
}
impl ToSocketAddrs for String {
    fn sim_port(&self) -> io::Result<u16> {
        port_of_str(self)
    }
}
impl ToSocketAddrs for SocketAddr {
    fn sim_port(&self) -> io::Result<u16> {
        Ok(self.port())
    }
}
impl ToSocketAddrs for (IpAddr, u16) {
    fn sim_port(&self) -> io::Result<u16> {
        Ok(self.1)
    }
}
impl ToSocketAddrs for (&str, u16) {
    fn sim_port(&self) -> io::Result<u16> {
        Ok(self.1)
    }
}
impl ToSocketAddrs for (String, u16) {
    fn sim_port(&self) -> io::Result<u16> {
        Ok(self.1)
    }
}
impl<T: ToSocketAddrs + ?Sized> ToSocketAddrs for &T {
    fn sim_port(&self) -> io::Result<u16> {
        (**self).sim_port()
    }
}

pub struct TcpListener {
    inner: snet::Listener,
}

impl TcpListener {
    pub async fn bind<A: ToSocketAddrs>(addr: A) -> io::Result<TcpListener> {
        let port = addr.sim_port()?;
        Ok(TcpListener { inner: snet::bind(port)? })
    }

    pub async fn accept(&self) -> io::Result<(TcpStream, SocketAddr)> {
        struct Accept<'a>(&'a snet::Listener);
        impl<'a> Future for Accept<'a> {
            type Output = io::Result<(Endpoint, SocketAddr)>;
            fn poll(self: Pin<&mut Self>, cx: &mut Context<'_>) -> Poll<Self::Output> {
                self.0.poll_accept(|| Waiter::Waker(cx.waker().clone()))
            }
        }
        let (ep, addr) = Accept(&self.inner).await?;
        Ok((TcpStream { ep }, addr))
    }

    pub fn poll_accept(&self, cx: &mut Context<'_>) -> Poll<io::Result<(TcpStream, SocketAddr)>> {
        match self.inner.poll_accept(|| Waiter::Waker(cx.waker().clone())) {
            Poll::Ready(Ok((ep, a))) => Poll::Ready(Ok((TcpStream { ep }, a))),
            Poll::Ready(Err(e)) => Poll::Ready(Err(e)),
            Poll::Pending => Poll::Pending,
        }
    }

    pub fn local_addr(&self) -> io::Result<SocketAddr> {
        Ok(SocketAddr::new(IpAddr::V4(std::net::Ipv4Addr::new(127, 0, 0, 1)), self.inner.port()))
    }
}

impl std::fmt::Debug for TcpListener {
    fn fmt(&self, f: &mut std::fmt::Formatter<'_>) -> std::fmt::Result {
        write!(f, "TcpListener(:{})", self.inner.port())
    }
}

pub struct TcpStream {
    ep: Endpoint,
}

impl TcpStream {
    pub async fn connect<A: ToSocketAddrs>(addr: A) -> io::Result<TcpStream> {
        let port = addr.sim_port()?;
        struct Connect(u16);
        impl Future for Connect {
            type Output = io::Result<Endpoint>;
            fn poll(self: Pin<&mut Self>, cx: &mut Context<'_>) -> Poll<Self::Output> {
                snet::poll_connect(self.0, || Waiter::Waker(cx.waker().clone()))
            }
        }
        let ep = Connect(port).await?;
        Ok(TcpStream { ep })
    }

    /// A connected pair without a listener (harness use).
    pub fn sim_pair() -> (TcpStream, TcpStream) {
        let (a, b) = snet::pair();
        (TcpStream { ep: a }, TcpStream { ep: b })
    }

    pub fn from_endpoint(ep: Endpoint) -> TcpStream {
        TcpStream { ep }
    }

    pub fn endpoint(&self) -> &Endpoint {
        &self.ep
    }

    pub fn endpoint_mut(&mut self) -> &mut Endpoint {
        &mut self.ep
    }

    pub fn set_nodelay(&self, _v: bool) -> io::Result<()> {
        Ok(())
    }

    /// As with a real socket, the peer's address of a connection that the peer has already
    /// reset is gone (`ENOTCONN`).
    pub fn peer_addr(&self) -> io::Result<SocketAddr> {
        let (_, _, reset) = self.ep.readable_now();
        if reset {
            return Err(io::Error::from_raw_os_error(107));
        }
        Ok(SocketAddr::new(IpAddr::V4(std::net::Ipv4Addr::new(127, 0, 0, 1)), 40_000 + (self.ep.conn_id() % 20_000) as u16))
    }

    pub fn local_addr(&self) -> io::Result<SocketAddr> {
        Ok(SocketAddr::new(IpAddr::V4(std::net::Ipv4Addr::new(127, 0, 0, 1)), 6379))
    }

    pub fn set_linger(&self, _d: Option<std::time::Duration>) -> io::Result<()> {
        Ok(())
    }

    pub fn nodelay(&self) -> io::Result<bool> {
        Ok(true)
    }

    /// Non-blocking read: what has arrived, or `WouldBlock`.
    pub fn try_read(&self, buf: &mut [u8]) -> io::Result<usize> {
        match self.ep.poll_read(buf, || Waiter::Waker(noop_waker())) {
            Poll::Ready(r) => r,
            Poll::Pending => Err(io::ErrorKind::WouldBlock.into()),
        }
    }

    pub fn try_read_buf<B: bytes::BufMut>(&self, buf: &mut B) -> io::Result<usize> {
        let want = buf.remaining_mut().min(64 * 1024);
        if want == 0 {
            return Ok(0);
        }
        let mut tmp = vec![0u8; want];
        let n = self.try_read(&mut tmp)?;
        buf.put_slice(&tmp[..n]);
        Ok(n)
    }

    pub fn try_write(&self, data: &[u8]) -> io::Result<usize> {
        match self.ep.poll_write(data, || Waiter::Waker(noop_waker())) {
            Poll::Ready(r) => r,
            Poll::Pending => Err(io::ErrorKind::WouldBlock.into()),
        }
    }

    pub async fn readable(&self) -> io::Result<()> {
        struct R<'a>(&'a Endpoint);
        impl Future for R<'_> {
            type Output = io::Result<()>;
            fn poll(self: Pin<&mut Self>, cx: &mut Context<'_>) -> Poll<Self::Output> {
                self.0.poll_read_ready(|| Waiter::Waker(cx.waker().clone()))
            }
        }
        R(&self.ep).await
    }

    pub async fn writable(&self) -> io::Result<()> {
        struct W<'a>(&'a Endpoint);
        impl Future for W<'_> {
            type Output = io::Result<()>;
            fn poll(self: Pin<&mut Self>, cx: &mut Context<'_>) -> Poll<Self::Output> {
                self.0.poll_write_ready(|| Waiter::Waker(cx.waker().clone()))
            }
        }
        W(&self.ep).await
    }

    pub fn poll_read_ready(&self, cx: &mut Context<'_>) -> Poll<io::Result<()>> {
        self.ep.poll_read_ready(|| Waiter::Waker(cx.waker().clone()))
    }

    pub fn poll_write_ready(&self, cx: &mut Context<'_>) -> Poll<io::Result<()>> {
        self.ep.poll_write_ready(|| Waiter::Waker(cx.waker().clone()))
    }

    /// Owned halves, as `tokio::net::TcpStream::into_split` (the connection closes when both
    /// halves are gone; dropping the write half alone closes the sending direction).
    pub fn into_split(self) -> (tcp::OwnedReadHalf, tcp::OwnedWriteHalf) {
        let shared = std::sync::Arc::new(self);
        (tcp::OwnedReadHalf { inner: shared.clone() }, tcp::OwnedWriteHalf { inner: shared, shutdown_on_drop: true })
    }

    /// Borrowed halves, as `tokio::net::TcpStream::split`.
    pub fn split(&mut self) -> (tcp::ReadHalf<'_>, tcp::WriteHalf<'_>) {
        let s: &TcpStream = &*self;
        (tcp::ReadHalf { inner: s }, tcp::WriteHalf { inner: s })
    }

    fn poll_read_shared(&self, cx: &mut Context<'_>, buf: &mut ReadBuf<'_>) -> Poll<io::Result<()>> {
        let dst = buf.initialize_unfilled();
        match self.ep.poll_read(dst, || Waiter::Waker(cx.waker().clone())) {
            Poll::Ready(Ok(n)) => {
                buf.advance(n);
                Poll::Ready(Ok(()))
            }
            Poll::Ready(Err(e)) => Poll::Ready(Err(e)),
            Poll::Pending => Poll::Pending,
        }
    }
}

fn noop_waker() -> std::task::Waker {
    struct Noop;
    impl std::task::Wake for Noop {
        fn wake(self: std::sync::Arc<Self>) {}
    }
    std::task::Waker::from(std::sync::Arc::new(Noop))
}

/// `tokio::net::tcp`: the split halves.
pub mod tcp {
    use super::*;

    pub struct OwnedReadHalf {
        pub(super) inner: std::sync::Arc<TcpStream>,
    }
    pub struct OwnedWriteHalf {
        pub(super) inner: std::sync::Arc<TcpStream>,
        pub(super) shutdown_on_drop: bool,
    }
    pub struct ReadHalf<'a> {
        pub(super) inner: &'a TcpStream,
    }
    pub struct WriteHalf<'a> {
        pub(super) inner: &'a TcpStream,
    }

    impl OwnedReadHalf {
        pub fn peer_addr(&self) -> io::Result<SocketAddr> {
            self.inner.peer_addr()
        }
        pub fn local_addr(&self) -> io::Result<SocketAddr> {
            self.inner.local_addr()
        }
        pub fn try_read(&self, buf: &mut [u8]) -> io::Result<usize> {
            self.inner.try_read(buf)
        }
        pub async fn readable(&self) -> io::Result<()> {
            self.inner.readable().await
        }
    }
    impl OwnedWriteHalf {
        pub fn peer_addr(&self) -> io::Result<SocketAddr> {
            self.inner.peer_addr()
        }
        pub fn local_addr(&self) -> io::Result<SocketAddr> {
            self.inner.local_addr()
        }
        pub fn try_write(&self, data: &[u8]) -> io::Result<usize> {
            self.inner.try_write(data)
        }
        pub async fn writable(&self) -> io::Result<()> {
            self.inner.writable().await
        }
        /// Drop the half without shutting the sending direction down.
        pub fn forget(mut self) {
            self.shutdown_on_drop = false;
        }
    }
    impl Drop for OwnedWriteHalf {
        fn drop(&mut self) {
            if self.shutdown_on_drop {
                self.inner.ep.shutdown_write();
            }
        }
    }
    impl std::fmt::Debug for OwnedReadHalf {
        fn fmt(&self, f: &mut std::fmt::Formatter<'_>) -> std::fmt::Result {
            write!(f, "OwnedReadHalf({:?})", self.inner)
        }
    }
    impl std::fmt::Debug for OwnedWriteHalf {
        fn fmt(&self, f: &mut std::fmt::Formatter<'_>) -> std::fmt::Result {
            write!(f, "OwnedWriteHalf({:?})", self.inner)
        }
    }

    macro_rules! read_half {
        ($t:ty) => {
            impl AsyncRead for $t {
                fn poll_read(self: Pin<&mut Self>, cx: &mut Context<'_>, buf: &mut ReadBuf<'_>) -> Poll<io::Result<()>> {
                    self.inner.poll_read_shared(cx, buf)
                }
            }
        };
    }
    macro_rules! write_half {
        ($t:ty) => {
            impl AsyncWrite for $t {
                fn poll_write(self: Pin<&mut Self>, cx: &mut Context<'_>, data: &[u8]) -> Poll<io::Result<usize>> {
                    self.inner.ep.poll_write(data, || Waiter::Waker(cx.waker().clone()))
                }
                fn poll_flush(self: Pin<&mut Self>, _cx: &mut Context<'_>) -> Poll<io::Result<()>> {
                    Poll::Ready(Ok(()))
                }
                fn poll_shutdown(self: Pin<&mut Self>, _cx: &mut Context<'_>) -> Poll<io::Result<()>> {
                    self.inner.ep.shutdown_write();
                    Poll::Ready(Ok(()))
                }
            }
        };
    }
    read_half!(OwnedReadHalf);
    read_half!(ReadHalf<'_>);
    write_half!(OwnedWriteHalf);
    write_half!(WriteHalf<'_>);
}

impl std::fmt::Debug for TcpStream {
    fn fmt(&self, f: &mut std::fmt::Formatter<'_>) -> std::fmt::Result {
        write!(f, "TcpStream(conn {})", self.ep.conn_id())
    }
}

impl AsyncRead for TcpStream {
    fn poll_read(self: Pin<&mut Self>, cx: &mut Context<'_>, buf: &mut ReadBuf<'_>) -> Poll<io::Result<()>> {
        let dst = buf.initialize_unfilled();
        match self.ep.poll_read(dst, || Waiter::Waker(cx.waker().clone())) {
            Poll::Ready(Ok(n)) => {
                buf.advance(n);
                Poll::Ready(Ok(()))
            }
            Poll::Ready(Err(e)) => Poll::Ready(Err(e)),
            Poll::Pending => Poll::Pending,
        }
    }
}

impl AsyncWrite for TcpStream {
    fn poll_write(self: Pin<&mut Self>, cx: &mut Context<'_>, data: &[u8]) -> Poll<io::Result<usize>> {
        self.ep.poll_write(data, || Waiter::Waker(cx.waker().clone()))
    }
    fn poll_flush(self: Pin<&mut Self>, _cx: &mut Context<'_>) -> Poll<io::Result<()>> {
        Poll::Ready(Ok(()))
    }
    fn poll_shutdown(self: Pin<&mut Self>, _cx: &mut Context<'_>) -> Poll<io::Result<()>> {
        self.ep.shutdown_write();
        Poll::Ready(Ok(()))
    }
}
