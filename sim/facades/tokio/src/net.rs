//! `tokio::net` over the simulator's TCP model.
use std::future::Future;
use std::io;
use std::net::{IpAddr, SocketAddr};
use std::pin::Pin;
use std::task::{Context, Poll};

use real_tokio::io::{AsyncRead, AsyncWrite, ReadBuf};
use simrt::net::{self as snet, Endpoint, Waiter};

/// Anything that names a port of the simulated host.
pub trait ToSocketAddrs {
    fn sim_port(&self) -> io::Result<u16>;
}

fn port_of_str(s: &str) -> io::Result<u16> {
    s.rsplit(':')
        .next()
        .and_then(|p| p.parse::<u16>().ok())
        .ok_or_else(|| io::Error::new(io::ErrorKind::InvalidInput, "invalid socket address"))
}

impl ToSocketAddrs for str {
    fn sim_port(&self) -> io::Result<u16> {
        port_of_str(self)
    }
}
impl ToSocketAddrs for String {
    fn sim_port(&self) -> io::Result<u16> {
        port_of_str(self)
    }
}
impl ToSocketAddrs for SocketAddr {
    fn sim_port(&self) -> io::Result<u16> {
        Ok(self.port())
    }
}
impl ToSocketAddrs for (IpAddr, u16) {
    fn sim_port(&self) -> io::Result<u16> {
        Ok(self.1)
    }
}
impl ToSocketAddrs for (&str, u16) {
    fn sim_port(&self) -> io::Result<u16> {
        Ok(self.1)
    }
}
impl ToSocketAddrs for (String, u16) {
    fn sim_port(&self) -> io::Result<u16> {
        Ok(self.1)
    }
}
impl<T: ToSocketAddrs + ?Sized> ToSocketAddrs for &T {
    fn sim_port(&self) -> io::Result<u16> {
        (**self).sim_port()
    }
}

pub struct TcpListener {
    inner: snet::Listener,
}

impl TcpListener {
    pub async fn bind<A: ToSocketAddrs>(addr: A) -> io::Result<TcpListener> {
        let port = addr.sim_port()?;
        Ok(TcpListener { inner: snet::bind(port)? })
    }

    pub async fn accept(&self) -> io::Result<(TcpStream, SocketAddr)> {
        struct Accept<'a>(&'a snet::Listener);
        impl<'a> Future for Accept<'a> {
            type Output = io::Result<(Endpoint, SocketAddr)>;
            fn poll(self: Pin<&mut Self>, cx: &mut Context<'_>) -> Poll<Self::Output> {
                self.0.poll_accept(|| Waiter::Waker(cx.waker().clone()))
            }
        }
        let (ep, addr) = Accept(&self.inner).await?;
        Ok((TcpStream { ep }, addr))
    }

    pub fn poll_accept(&self, cx: &mut Context<'_>) -> Poll<io::Result<(TcpStream, SocketAddr)>> {
        match self.inner.poll_accept(|| Waiter::Waker(cx.waker().clone())) {
            Poll::Ready(Ok((ep, a))) => Poll::Ready(Ok((TcpStream { ep }, a))),
            Poll::Ready(Err(e)) => Poll::Ready(Err(e)),
            Poll::Pending => Poll::Pending,
        }
    }

    pub fn local_addr(&self) -> io::Result<SocketAddr> {
        Ok(SocketAddr::new(IpAddr::V4(std::net::Ipv4Addr::new(127, 0, 0, 1)), self.inner.port()))
    }
}

impl std::fmt::Debug for TcpListener {
    fn fmt(&self, f: &mut std::fmt::Formatter<'_>) -> std::fmt::Result {
        write!(f, "TcpListener(:{})", self.inner.port())
    }
}

pub struct TcpStream {
    ep: Endpoint,
}

impl TcpStream {
    pub async fn connect<A: ToSocketAddrs>(addr: A) -> io::Result<TcpStream> {
        let port = addr.sim_port()?;
        struct Connect(u16);
        impl Future for Connect {
            type Output = io::Result<Endpoint>;
            fn poll(self: Pin<&mut Self>, cx: &mut Context<'_>) -> Poll<Self::Output> {
                snet::poll_connect(self.0, || Waiter::Waker(cx.waker().clone()))
            }
        }
        let ep = Connect(port).await?;
        Ok(TcpStream { ep })
    }

    /// A connected pair without a listener (harness use).
    pub fn sim_pair() -> (TcpStream, TcpStream) {
        let (a, b) = snet::pair();
        (TcpStream { ep: a }, TcpStream { ep: b })
    }

    pub fn from_endpoint(ep: Endpoint) -> TcpStream {
        TcpStream { ep }
    }

    pub fn endpoint(&self) -> &Endpoint {
        &self.ep
    }

    pub fn endpoint_mut(&mut self) -> &mut Endpoint {
        &mut self.ep
    }

    pub fn set_nodelay(&self, _v: bool) -> io::Result<()> {
        Ok(())
    }

    /// As with a real socket, the peer's address of a connection that the peer has already
    /// reset is gone (`ENOTCONN`).
    pub fn peer_addr(&self) -> io::Result<SocketAddr> {
        let (_, _, reset) = self.ep.readable_now();
        if reset {
            return Err(io::Error::from_raw_os_error(107));
        }
        Ok(SocketAddr::new(IpAddr::V4(std::net::Ipv4Addr::new(127, 0, 0, 1)), 40_000 + (self.ep.conn_id() % 20_000) as u16))
    }

    pub fn local_addr(&self) -> io::Result<SocketAddr> {
        Ok(SocketAddr::new(IpAddr::V4(std::net::Ipv4Addr::new(127, 0, 0, 1)), 6379))
    }
}

impl std::fmt::Debug for TcpStream {
    fn fmt(&self, f: &mut std::fmt::Formatter<'_>) -> std::fmt::Result {
        write!(f, "TcpStream(conn {})", self.ep.conn_id())
    }
}

impl AsyncRead for TcpStream {
    fn poll_read(self: Pin<&mut Self>, cx: &mut Context<'_>, buf: &mut ReadBuf<'_>) -> Poll<io::Result<()>> {
        let dst = buf.initialize_unfilled();
        match self.ep.poll_read(dst, || Waiter::Waker(cx.waker().clone())) {
            Poll::Ready(Ok(n)) => {
                buf.advance(n);
                Poll::Ready(Ok(()))
            }
            Poll::Ready(Err(e)) => Poll::Ready(Err(e)),
            Poll::Pending => Poll::Pending,
        }
    }
}

impl AsyncWrite for TcpStream {
    fn poll_write(self: Pin<&mut Self>, cx: &mut Context<'_>, data: &[u8]) -> Poll<io::Result<usize>> {
        self.ep.poll_write(data, || Waiter::Waker(cx.waker().clone()))
    }
    fn poll_flush(self: Pin<&mut Self>, _cx: &mut Context<'_>) -> Poll<io::Result<()>> {
        Poll::Ready(Ok(()))
    }
    fn poll_shutdown(self: Pin<&mut Self>, _cx: &mut Context<'_>) -> Poll<io::Result<()>> {
        self.ep.shutdown_write();
        Poll::Ready(Ok(()))
    }
}
