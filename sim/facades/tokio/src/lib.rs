//! Facade for `tokio`. Runtime-independent parts (`sync`, `io` utilities, `join!`, `pin!`) are
//! the real tokio 1.17; the runtime, tasks, blocking pool, timers, TCP and `select!` are the
//! simulator's. Real tokio's `rt`, `time` and `net` features are not even compiled, so no code
//! path can reach an unsimulated timer, socket or thread pool.

pub use real_tokio::{join, pin, try_join};

pub mod sync {
    pub use real_tokio::sync::*;
}

pub mod io {
    pub use real_tokio::io::*;
}

pub mod runtime {
    pub use simrt::exec::{Builder, Handle, Runtime};
}

pub mod task {
    pub use simrt::exec::{spawn, spawn_blocking, yield_now, JoinError, JoinHandle};
}

pub use simrt::exec::spawn;

pub mod time {
    pub use simrt::time::{interval, interval_at, sleep, sleep_until, timeout, timeout_at, Elapsed, Instant, Interval, MissedTickBehavior, Sleep, Timeout};
    pub use std::time::Duration;
    pub mod error {
        pub use simrt::time::Elapsed;
    }
}

pub mod net;

#[doc(hidden)]
pub mod macros_support {
    pub use std::future::Future;
    pub use std::pin::Pin;
    pub use std::task::{Context, Poll};

    /// Index of the branch `select!` polls first: drawn from the run's "select" stream.
    pub fn select_start(n: u32) -> u32 {
        match simrt::current() {
            Some((sim, _)) => {
                sim.probe("select_entered");
                sim.with_stream("select", |r| r.below(n as u64) as u32)
            }
            None => 0,
        }
    }

    pub fn select_both_ready() {
        simrt::sched::probe("select_both_ready");
    }

    pub struct PollFn<F>(pub F);
    impl<F> Unpin for PollFn<F> {}
    impl<T, F: FnMut(&mut Context<'_>) -> Poll<T>> Future for PollFn<F> {
        type Output = T;
        fn poll(mut self: Pin<&mut Self>, cx: &mut Context<'_>) -> Poll<T> {
            (self.0)(cx)
        }
    }

    pub enum Out2<A, B> { _0(A), _1(B) }
    pub enum Out3<A, B, C> { _0(A), _1(B), _2(C) }
    pub enum Out4<A, B, C, D> { _0(A), _1(B), _2(C), _3(D) }
    pub enum Out5<A, B, C, D, E> { _0(A), _1(B), _2(C), _3(D), _4(E) }
    pub enum Out6<A, B, C, D, E, F> { _0(A), _1(B), _2(C), _3(D), _4(E), _5(F) }
}

/// `tokio::select!` with tokio's semantics — all branches are polled in one `poll_fn`, the
/// first `Ready` wins, the remaining futures are dropped before the handler runs — for 2..6
/// branches of the form `pattern = future => handler`. The branch polled first is chosen by the
/// simulator's PRNG instead of tokio's thread-local RNG. `, if <cond>` preconditions are
/// supported (a disabled branch is not polled; all disabled panics as tokio does without an
/// `else`); `else` and `biased;` are not (the repository uses none).
#[macro_export]
macro_rules! select {
    // `biased;`: branches are polled in the order written (tokio's documented meaning)
    (biased; $($t:tt)*) => { $crate::__select_parse!{ ({true}) $($t)* } };
    ($($t:tt)*) => { $crate::__select_parse!{ ({false}) $($t)* } };
}

#[doc(hidden)]
#[macro_export]
macro_rules! __select_parse {
    // with precondition: `pat = fut, if cond => handler`
    ( ($($acc:tt)*) $p:pat = $f:expr , if $c:expr => $h:block , $($rest:tt)* ) => {
        $crate::__select_parse!{ ($($acc)* [{$p} {$f} {$c} {$h}]) $($rest)* }
    };
    ( ($($acc:tt)*) $p:pat = $f:expr , if $c:expr => $h:block $($rest:tt)* ) => {
        $crate::__select_parse!{ ($($acc)* [{$p} {$f} {$c} {$h}]) $($rest)* }
    };
    ( ($($acc:tt)*) $p:pat = $f:expr , if $c:expr => $h:expr , $($rest:tt)* ) => {
        $crate::__select_parse!{ ($($acc)* [{$p} {$f} {$c} {$h}]) $($rest)* }
    };
    ( ($($acc:tt)*) $p:pat = $f:expr , if $c:expr => $h:expr ) => {
        $crate::__select_parse!{ ($($acc)* [{$p} {$f} {$c} {$h}]) }
    };
    // without precondition
    ( ($($acc:tt)*) $p:pat = $f:expr => $h:block , $($rest:tt)* ) => {
        $crate::__select_parse!{ ($($acc)* [{$p} {$f} {true} {$h}]) $($rest)* }
    };
    ( ($($acc:tt)*) $p:pat = $f:expr => $h:block $($rest:tt)* ) => {
        $crate::__select_parse!{ ($($acc)* [{$p} {$f} {true} {$h}]) $($rest)* }
    };
    ( ($($acc:tt)*) $p:pat = $f:expr => $h:expr , $($rest:tt)* ) => {
        $crate::__select_parse!{ ($($acc)* [{$p} {$f} {true} {$h}]) $($rest)* }
    };
    ( ($($acc:tt)*) $p:pat = $f:expr => $h:expr ) => {
        $crate::__select_parse!{ ($($acc)* [{$p} {$f} {true} {$h}]) }
    };
    ( ($($acc:tt)*) ) => { $crate::__select_emit!{ $($acc)* } };
}

#[doc(hidden)]
#[macro_export]
macro_rules! __select_emit {
    ( {$biased:expr} [{$p0:pat} {$f0:expr} {$c0:expr} {$h0:expr}] [{$p1:pat} {$f1:expr} {$c1:expr} {$h1:expr}] ) => {{
        let __out = {
            let __e0: bool = $c0;
            let __e1: bool = $c1;
            let mut __f0 = ::std::pin::pin!($f0);
            let mut __f1 = ::std::pin::pin!($f1);
            if !(__e0 || __e1) {
                panic!("all branches are disabled and there is no else branch");
            }
            let __start = if $biased { 0 } else { $crate::macros_support::select_start(2) };
            $crate::macros_support::PollFn(|__cx: &mut $crate::macros_support::Context<'_>| {
                use $crate::macros_support::{Future, Poll, Out2};
                for __i in 0..2u32 {
                    match (__start + __i) % 2 {
                        0 => if __e0 { if let Poll::Ready(v) = __f0.as_mut().poll(__cx) { return Poll::Ready(Out2::_0(v)); } },
                        _ => if __e1 { if let Poll::Ready(v) = __f1.as_mut().poll(__cx) { return Poll::Ready(Out2::_1(v)); } },
                    }
                }
                Poll::Pending
            }).await
        };
        match __out {
            $crate::macros_support::Out2::_0($p0) => $h0,
            $crate::macros_support::Out2::_1($p1) => $h1,
        }
    }};
    ( {$biased:expr} [{$p0:pat} {$f0:expr} {$c0:expr} {$h0:expr}] [{$p1:pat} {$f1:expr} {$c1:expr} {$h1:expr}] [{$p2:pat} {$f2:expr} {$c2:expr} {$h2:expr}] ) => {{
        let __out = {
            let __e0: bool = $c0;
            let __e1: bool = $c1;
            let __e2: bool = $c2;
            let mut __f0 = ::std::pin::pin!($f0);
            let mut __f1 = ::std::pin::pin!($f1);
            let mut __f2 = ::std::pin::pin!($f2);
            if !(__e0 || __e1 || __e2) {
                panic!("all branches are disabled and there is no else branch");
            }
            let __start = if $biased { 0 } else { $crate::macros_support::select_start(3) };
            $crate::macros_support::PollFn(|__cx: &mut $crate::macros_support::Context<'_>| {
                use $crate::macros_support::{Future, Poll, Out3};
                for __i in 0..3u32 {
                    match (__start + __i) % 3 {
                        0 => if __e0 { if let Poll::Ready(v) = __f0.as_mut().poll(__cx) { return Poll::Ready(Out3::_0(v)); } },
                        1 => if __e1 { if let Poll::Ready(v) = __f1.as_mut().poll(__cx) { return Poll::Ready(Out3::_1(v)); } },
                        _ => if __e2 { if let Poll::Ready(v) = __f2.as_mut().poll(__cx) { return Poll::Ready(Out3::_2(v)); } },
                    }
                }
                Poll::Pending
            }).await
        };
        match __out {
            $crate::macros_support::Out3::_0($p0) => $h0,
            $crate::macros_support::Out3::_1($p1) => $h1,
            $crate::macros_support::Out3::_2($p2) => $h2,
        }
    }};
    ( {$biased:expr} [{$p0:pat} {$f0:expr} {$c0:expr} {$h0:expr}] [{$p1:pat} {$f1:expr} {$c1:expr} {$h1:expr}] [{$p2:pat} {$f2:expr} {$c2:expr} {$h2:expr}] [{$p3:pat} {$f3:expr} {$c3:expr} {$h3:expr}] ) => {{
        let __out = {
            let __e0: bool = $c0;
            let __e1: bool = $c1;
            let __e2: bool = $c2;
            let __e3: bool = $c3;
            let mut __f0 = ::std::pin::pin!($f0);
            let mut __f1 = ::std::pin::pin!($f1);
            let mut __f2 = ::std::pin::pin!($f2);
            let mut __f3 = ::std::pin::pin!($f3);
            if !(__e0 || __e1 || __e2 || __e3) {
                panic!("all branches are disabled and there is no else branch");
            }
            let __start = if $biased { 0 } else { $crate::macros_support::select_start(4) };
            $crate::macros_support::PollFn(|__cx: &mut $crate::macros_support::Context<'_>| {
                use $crate::macros_support::{Future, Poll, Out4};
                for __i in 0..4u32 {
                    match (__start + __i) % 4 {
                        0 => if __e0 { if let Poll::Ready(v) = __f0.as_mut().poll(__cx) { return Poll::Ready(Out4::_0(v)); } },
                        1 => if __e1 { if let Poll::Ready(v) = __f1.as_mut().poll(__cx) { return Poll::Ready(Out4::_1(v)); } },
                        2 => if __e2 { if let Poll::Ready(v) = __f2.as_mut().poll(__cx) { return Poll::Ready(Out4::_2(v)); } },
                        _ => if __e3 { if let Poll::Ready(v) = __f3.as_mut().poll(__cx) { return Poll::Ready(Out4::_3(v)); } },
                    }
                }
                Poll::Pending
            }).await
        };
        match __out {
            $crate::macros_support::Out4::_0($p0) => $h0,
            $crate::macros_support::Out4::_1($p1) => $h1,
            $crate::macros_support::Out4::_2($p2) => $h2,
            $crate::macros_support::Out4::_3($p3) => $h3,
        }
    }};
}
