//! Facade for `num_cpus`: a per-run value chosen by the simulator.
pub fn get() -> usize {
    match simrt::current() {
        Some((sim, _)) => sim.cfg.num_cpus.max(1),
        None => 1,
    }
}
pub fn get_physical() -> usize {
    get()
}
