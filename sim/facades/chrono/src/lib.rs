//! Facade for `chrono`: the real crate, with `Local::now()` / `Utc::now()` reading the
//! simulator's wall clock (simulated time + skew).
pub use real_chrono::*;

fn wall_ns() -> i64 {
    match simrt::current() {
        Some((sim, _)) => sim.wall_ns(),
        None => 1_700_000_000_000_000_000,
    }
}

/// Stand-in for `chrono::Local`: local time is modelled as UTC.
#[derive(Clone, Copy, Debug)]
pub struct Local;

impl Local {
    pub fn now() -> DateTime<real_chrono::Utc> {
        let ns = wall_ns();
        let secs = ns.div_euclid(1_000_000_000);
        let sub = ns.rem_euclid(1_000_000_000) as u32;
        DateTime::<real_chrono::Utc>::from_utc(NaiveDateTime::from_timestamp(secs, sub), real_chrono::Utc)
    }
    pub fn today() -> Date<real_chrono::Utc> {
        Self::now().date()
    }
}
