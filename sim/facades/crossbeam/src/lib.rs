//! Facade for the parts of `crossbeam` the store uses: `queue::ArrayQueue`,
//! `atomic::AtomicCell`, `utils::Backoff`. Same API; every access is a scheduling point and a
//! spin is a "wait until somebody else made progress".

pub mod queue {
    use simrt::sched::{yield_now, Kind};
    use std::collections::VecDeque;
    use std::sync::Mutex;

    /// Bounded MPMC queue.
    pub struct ArrayQueue<T> {
        q: Mutex<VecDeque<T>>,
        cap: usize,
    }

    impl<T> ArrayQueue<T> {
        pub fn new(cap: usize) -> Self {
            assert!(cap > 0, "capacity must be non-zero");
            ArrayQueue { q: Mutex::new(VecDeque::with_capacity(cap)), cap }
        }
        fn lock(&self) -> std::sync::MutexGuard<'_, VecDeque<T>> {
            self.q.lock().unwrap_or_else(|e| e.into_inner())
        }
        pub fn push(&self, value: T) -> Result<(), T> {
            // decide first, then announce: the scheduling point must say whether this
            // operation changes shared state
            yield_now(Kind::QueuePush, true);
            let mut q = self.lock();
            if q.len() >= self.cap {
                return Err(value);
            }
            q.push_back(value);
            Ok(())
        }
        pub fn force_push(&self, value: T) -> Option<T> {
            yield_now(Kind::QueuePush, true);
            let mut q = self.lock();
            let old = if q.len() >= self.cap { q.pop_front() } else { None };
            q.push_back(value);
            old
        }
        pub fn pop(&self) -> Option<T> {
            let nonempty = !self.lock().is_empty();
            yield_now(Kind::QueuePop, nonempty);
            let v = self.lock().pop_front();
            if v.is_none() {
                simrt::sched::probe("queue_pop_empty");
            }
            v
        }
        pub fn capacity(&self) -> usize {
            self.cap
        }
        pub fn is_empty(&self) -> bool {
            self.lock().is_empty()
        }
        pub fn is_full(&self) -> bool {
            self.lock().len() >= self.cap
        }
        pub fn len(&self) -> usize {
            self.lock().len()
        }
    }

    impl<T> std::fmt::Debug for ArrayQueue<T> {
        fn fmt(&self, f: &mut std::fmt::Formatter<'_>) -> std::fmt::Result {
            f.pad("ArrayQueue { .. }")
        }
    }

    /// Unbounded MPMC queue.
    pub struct SegQueue<T> {
        q: Mutex<VecDeque<T>>,
    }

    impl<T> SegQueue<T> {
        pub const fn new() -> Self {
            SegQueue { q: Mutex::new(VecDeque::new()) }
        }
        fn lock(&self) -> std::sync::MutexGuard<'_, VecDeque<T>> {
            self.q.lock().unwrap_or_else(|e| e.into_inner())
        }
        pub fn push(&self, value: T) {
            yield_now(Kind::QueuePush, true);
            self.lock().push_back(value);
        }
        pub fn pop(&self) -> Option<T> {
            let nonempty = !self.lock().is_empty();
            yield_now(Kind::QueuePop, nonempty);
            self.lock().pop_front()
        }
        pub fn is_empty(&self) -> bool {
            self.lock().is_empty()
        }
        pub fn len(&self) -> usize {
            self.lock().len()
        }
    }

    impl<T> Default for SegQueue<T> {
        fn default() -> Self {
            Self::new()
        }
    }

    impl<T> std::fmt::Debug for SegQueue<T> {
        fn fmt(&self, f: &mut std::fmt::Formatter<'_>) -> std::fmt::Result {
            f.pad("SegQueue { .. }")
        }
    }
}

pub mod atomic {
    use simrt::sched::{yield_now, Kind};
    use std::sync::Mutex;

    pub struct AtomicCell<T> {
        v: Mutex<T>,
    }

    impl<T> AtomicCell<T> {
        pub const fn new(v: T) -> Self {
            AtomicCell { v: Mutex::new(v) }
        }
        fn lock(&self) -> std::sync::MutexGuard<'_, T> {
            self.v.lock().unwrap_or_else(|e| e.into_inner())
        }
        pub fn into_inner(self) -> T {
            self.v.into_inner().unwrap_or_else(|e| e.into_inner())
        }
        pub const fn is_lock_free() -> bool {
            true
        }
        pub fn store(&self, val: T) {
            yield_now(Kind::AtomicStore, true);
            *self.lock() = val;
        }
        pub fn swap(&self, val: T) -> T {
            yield_now(Kind::AtomicStore, true);
            std::mem::replace(&mut *self.lock(), val)
        }
    }

    impl<T: Default> AtomicCell<T> {
        pub fn take(&self) -> T {
            self.swap(T::default())
        }
    }

    impl<T: Copy> AtomicCell<T> {
        pub fn load(&self) -> T {
            yield_now(Kind::AtomicLoad, false);
            *self.lock()
        }
    }

    impl<T: Copy + Eq> AtomicCell<T> {
        pub fn compare_exchange(&self, current: T, new: T) -> Result<T, T> {
            yield_now(Kind::AtomicStore, true);
            let mut g = self.lock();
            if *g == current {
                Ok(std::mem::replace(&mut *g, new))
            } else {
                Err(*g)
            }
        }
        pub fn fetch_update<F: FnMut(T) -> Option<T>>(&self, mut f: F) -> Result<T, T> {
            yield_now(Kind::AtomicStore, true);
            let mut g = self.lock();
            match f(*g) {
                Some(n) => Ok(std::mem::replace(&mut *g, n)),
                None => Err(*g),
            }
        }
    }

    macro_rules! int_ops {
        ($($t:ty),*) => {$(
            impl AtomicCell<$t> {
                pub fn fetch_add(&self, v: $t) -> $t {
                    yield_now(Kind::AtomicStore, true);
                    let mut g = self.lock();
                    let old = *g;
                    *g = old.wrapping_add(v);
                    old
                }
                pub fn fetch_sub(&self, v: $t) -> $t {
                    yield_now(Kind::AtomicStore, true);
                    let mut g = self.lock();
                    let old = *g;
                    *g = old.wrapping_sub(v);
                    old
                }
                pub fn fetch_max(&self, v: $t) -> $t {
                    yield_now(Kind::AtomicStore, true);
                    let mut g = self.lock();
                    let old = *g;
                    *g = old.max(v);
                    old
                }
                pub fn fetch_min(&self, v: $t) -> $t {
                    yield_now(Kind::AtomicStore, true);
                    let mut g = self.lock();
                    let old = *g;
                    *g = old.min(v);
                    old
                }
            }
        )*};
    }
    int_ops!(u8, u16, u32, u64, usize, i8, i16, i32, i64, isize);

    impl AtomicCell<bool> {
        pub fn fetch_and(&self, v: bool) -> bool {
            yield_now(Kind::AtomicStore, true);
            let mut g = self.lock();
            let old = *g;
            *g = old & v;
            old
        }
        pub fn fetch_or(&self, v: bool) -> bool {
            yield_now(Kind::AtomicStore, true);
            let mut g = self.lock();
            let old = *g;
            *g = old | v;
            old
        }
    }

    impl<T: Default> Default for AtomicCell<T> {
        fn default() -> Self {
            AtomicCell::new(T::default())
        }
    }

    impl<T: Copy + std::fmt::Debug> std::fmt::Debug for AtomicCell<T> {
        fn fmt(&self, f: &mut std::fmt::Formatter<'_>) -> std::fmt::Result {
            f.debug_struct("AtomicCell").field("value", &*self.lock()).finish()
        }
    }

    impl<T> From<T> for AtomicCell<T> {
        fn from(v: T) -> Self {
            AtomicCell::new(v)
        }
    }
}

pub mod utils {
    use std::cell::Cell;

    /// Exponential backoff in spin loops: in simulation, "wait until another thread has made
    /// progress".
    #[derive(Debug)]
    pub struct Backoff {
        step: Cell<u32>,
    }

    impl Backoff {
        pub fn new() -> Self {
            Backoff { step: Cell::new(0) }
        }
        pub fn reset(&self) {
            self.step.set(0);
        }
        pub fn spin(&self) {
            self.step.set(self.step.get().saturating_add(1));
            match simrt::current() {
                Some((sim, me)) => {
                    sim.probe("backoff_spin");
                    sim.spin_wait(me)
                }
                None => std::hint::spin_loop(),
            }
        }
        pub fn snooze(&self) {
            self.step.set(self.step.get().saturating_add(1));
            match simrt::current() {
                Some((sim, me)) => {
                    sim.probe("backoff_spin");
                    sim.spin_wait(me)
                }
                None => std::thread::yield_now(),
            }
        }
        pub fn is_completed(&self) -> bool {
            self.step.get() > 10
        }
    }

    impl Default for Backoff {
        fn default() -> Self {
            Backoff::new()
        }
    }

    #[derive(Clone, Copy, Default, Hash, PartialEq, Eq, Debug)]
    #[repr(align(128))]
    pub struct CachePadded<T> {
        value: T,
    }

    impl<T> CachePadded<T> {
        pub const fn new(t: T) -> CachePadded<T> {
            CachePadded { value: t }
        }
        pub fn into_inner(self) -> T {
            self.value
        }
    }

    impl<T> std::ops::Deref for CachePadded<T> {
        type Target = T;
        fn deref(&self) -> &T {
            &self.value
        }
    }

    impl<T> std::ops::DerefMut for CachePadded<T> {
        fn deref_mut(&mut self) -> &mut T {
            &mut self.value
        }
    }
}
