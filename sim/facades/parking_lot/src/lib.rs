//! Facade for `parking_lot`: the genuine `lock_api` types over the simulator's raw locks.
pub use lock_api;
pub use simrt::sync::{Condvar, RawMutex, RawRwLock, RawThreadId, WaitTimeoutResult};

/// The simulator's mutex hands the lock over through the scheduler at every release, so the
/// fair variant is the same type.
pub type FairMutex<T> = lock_api::Mutex<RawMutex, T>;
pub type FairMutexGuard<'a, T> = lock_api::MutexGuard<'a, RawMutex, T>;
pub type ReentrantMutex<T> = lock_api::ReentrantMutex<RawMutex, RawThreadId, T>;
pub type ReentrantMutexGuard<'a, T> = lock_api::ReentrantMutexGuard<'a, RawMutex, RawThreadId, T>;

pub type Mutex<T> = lock_api::Mutex<RawMutex, T>;
pub type MutexGuard<'a, T> = lock_api::MutexGuard<'a, RawMutex, T>;
pub type MappedMutexGuard<'a, T> = lock_api::MappedMutexGuard<'a, RawMutex, T>;
pub type RwLock<T> = lock_api::RwLock<RawRwLock, T>;
pub type RwLockReadGuard<'a, T> = lock_api::RwLockReadGuard<'a, RawRwLock, T>;
pub type RwLockWriteGuard<'a, T> = lock_api::RwLockWriteGuard<'a, RawRwLock, T>;
pub type MappedRwLockReadGuard<'a, T> = lock_api::MappedRwLockReadGuard<'a, RawRwLock, T>;
pub type MappedRwLockWriteGuard<'a, T> = lock_api::MappedRwLockWriteGuard<'a, RawRwLock, T>;

pub const fn const_mutex<T>(val: T) -> Mutex<T> {
    Mutex::const_new(<RawMutex as lock_api::RawMutex>::INIT, val)
}

pub const fn const_rwlock<T>(val: T) -> RwLock<T> {
    RwLock::const_new(<RawRwLock as lock_api::RawRwLock>::INIT, val)
}
