use crate::t::Map;
use crate::{DashMap, HashMap};
use core::borrow::Borrow;
use core::fmt;
use core::hash::{BuildHasher, Hash};
use crate::seeded::RandomState;

/// A read-only view into a `DashMap`. Allows to obtain raw references to the stored values.
pub struct ReadOnlyView<K, V, S = RandomState> {
    map: DashMap<K, V, S>,
}

impl<K: Eq + Hash + Clone, V: Clone, S: Clone> Clone for ReadOnlyView<K, V, S> {
    fn clone(&self) -> Self {
        Self {
            map: self.map.clone(),
        }
    }
}

impl<K: Eq + Hash + fmt::Debug, V: fmt::Debug, S: BuildHasher + Clone> fmt::Debug
    for ReadOnlyView<K, V, S>
{
    fn fmt(&self, f: &mut fmt::Formatter<'_>) -> fmt::Result {
        self.map.fmt(f)
    }
}

impl<K, V, S> ReadOnlyView<K, V, S> {
    pub(crate) fn new(map: DashMap<K, V, S>) -> Self {
        Self { map }
    }

    /// Consumes this `ReadOnlyView`, returning the underlying `DashMap`.
    pub fn into_inner(self) -> DashMap<K, V, S> {
        self.map
    }
}

impl<'a, K: 'a + Eq + Hash, V: 'a, S: BuildHasher + Clone> ReadOnlyView<K, V, S> {
    /// Returns the number of elements in the map.
    pub fn len(&self) -> usize {
        self.map.len()
    }

    /// Returns `true` if the map contains no elements.
    pub fn is_empty(&self) -> bool {
        self.map.is_empty()
    }

    /// Returns the number of elements the map can hold without reallocating.
    pub fn capacity(&self) -> usize {
        self.map.capacity()
    }

    /// Returns `true` if the map contains a value for the specified key.
    pub fn contains_key<Q>(&'a self, key: &Q) -> bool
    where
        K: Borrow<Q>,
        Q: Hash + Eq + ?Sized,
    {
        let hash = self.map.hash_usize(&key);

        let idx = self.map.determine_shard(hash);

        let shard = unsafe { self.map._get_read_shard(idx) };

        shard.contains_key(key)
    }

    /// Returns a reference to the value corresponding to the key.
    pub fn get<Q>(&'a self, key: &Q) -> Option<&'a V>
    where
        K: Borrow<Q>,
        Q: Hash + Eq + ?Sized,
    {
        let hash = self.map.hash_usize(&key);

        let idx = self.map.determine_shard(hash);

        let shard = unsafe { self.map._get_read_shard(idx) };

        shard.get(key).map(|v| v.get())
    }

    /// Returns the key-value pair corresponding to the supplied key.
    pub fn get_key_value<Q>(&'a self, key: &Q) -> Option<(&'a K, &'a V)>
    where
        K: Borrow<Q>,
        Q: Hash + Eq + ?Sized,
    {
        let hash = self.map.hash_usize(&key);

        let idx = self.map.determine_shard(hash);

        let shard = unsafe { self.map._get_read_shard(idx) };

        shard.get_key_value(key).map(|(k, v)| (k, v.get()))
    }

    fn shard_read_iter(&'a self) -> impl Iterator<Item = &'a HashMap<K, V, S>> + 'a {
        (0..self.map._shard_count())
            .map(move |shard_i| unsafe { self.map._get_read_shard(shard_i) })
    }

    /// An iterator visiting all key-value pairs in arbitrary order. The iterator element type is `(&'a K, &'a V)`.
    pub fn iter(&'a self) -> impl Iterator<Item = (&'a K, &'a V)> + 'a {
        self.shard_read_iter()
            .flat_map(|shard| shard.iter())
            .map(|(k, v)| (k, v.get()))
    }

    /// An iterator visiting all keys in arbitrary order. The iterator element type is `&'a K`.
    pub fn keys(&'a self) -> impl Iterator<Item = &'a K> + 'a {
        self.shard_read_iter().flat_map(|shard| shard.keys())
    }

    /// An iterator visiting all values in arbitrary order. The iterator element type is `&'a V`.
    pub fn values(&'a self) -> impl Iterator<Item = &'a V> + 'a {
        self.shard_read_iter()
            .flat_map(|shard| shard.values())
            .map(|v| v.get())
    }
}

#[cfg(test)]

mod tests {

    use crate::DashMap;

    fn construct_sample_map() -> DashMap<i32, String> {
        let map = DashMap::new();

        map.insert(1, "one".to_string());

        map.insert(10, "ten".to_string());

        map.insert(27, "twenty seven".to_string());

        map.insert(45, "forty five".to_string());

        map
    }

    #[test]

    fn test_properties() {
        let map = construct_sample_map();

        let view = map.clone().into_read_only();

        assert_eq!(view.is_empty(), map.is_empty());

        assert_eq!(view.len(), map.len());

        assert_eq!(view.capacity(), map.capacity());

        let new_map = view.into_inner();

        assert_eq!(new_map.is_empty(), map.is_empty());

        assert_eq!(new_map.len(), map.len());

        assert_eq!(new_map.capacity(), map.capacity());
    }

    #[test]

    fn test_get() {
        let map = construct_sample_map();

        let view = map.clone().into_read_only();

        for key in map.iter().map(|entry| *entry.key()) {
            assert!(view.contains_key(&key));

            let map_entry = map.get(&key).unwrap();

            assert_eq!(view.get(&key).unwrap(), map_entry.value());

            let key_value: (&i32, &String) = view.get_key_value(&key).unwrap();

            assert_eq!(key_value.0, map_entry.key());

            assert_eq!(key_value.1, map_entry.value());
        }
    }

    #[test]

    fn test_iters() {
        let map = construct_sample_map();

        let view = map.clone().into_read_only();

        let mut visited_items = Vec::new();

        for (key, value) in view.iter() {
            map.contains_key(key);

            let map_entry = map.get(&key).unwrap();

            assert_eq!(key, map_entry.key());

            assert_eq!(value, map_entry.value());

            visited_items.push((key, value));
        }

        let mut visited_keys = Vec::new();

        for key in view.keys() {
            map.contains_key(key);

            let map_entry = map.get(&key).unwrap();

            assert_eq!(key, map_entry.key());

            assert_eq!(view.get(key).unwrap(), map_entry.value());

            visited_keys.push(key);
        }

        let mut visited_values = Vec::new();

        for value in view.values() {
            visited_values.push(value);
        }

        for entry in map.iter() {
            let key = entry.key();

            let value = entry.value();

            assert!(visited_keys.contains(&key));

            assert!(visited_values.contains(&value));

            assert!(visited_items.contains(&(key, value)));
        }
    }
}
