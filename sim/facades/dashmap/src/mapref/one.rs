use crate::HashMap;
use core::hash::{BuildHasher, Hash};
use core::ops::{Deref, DerefMut};
use parking_lot::{RwLockReadGuard, RwLockWriteGuard};
use crate::seeded::RandomState;

pub struct Ref<'a, K, V, S = RandomState> {
    _guard: RwLockReadGuard<'a, HashMap<K, V, S>>,
    k: *const K,
    v: *const V,
}

unsafe impl<'a, K: Eq + Hash + Send, V: Send, S: BuildHasher> Send for Ref<'a, K, V, S> {}

unsafe impl<'a, K: Eq + Hash + Send + Sync, V: Send + Sync, S: BuildHasher> Sync
    for Ref<'a, K, V, S>
{
}

impl<'a, K: Eq + Hash, V, S: BuildHasher> Ref<'a, K, V, S> {
    pub(crate) unsafe fn new(
        guard: RwLockReadGuard<'a, HashMap<K, V, S>>,
        k: *const K,
        v: *const V,
    ) -> Self {
        Self {
            _guard: guard,
            k,
            v,
        }
    }

    pub fn key(&self) -> &K {
        self.pair().0
    }

    pub fn value(&self) -> &V {
        self.pair().1
    }

    pub fn pair(&self) -> (&K, &V) {
        unsafe { (&*self.k, &*self.v) }
    }
}

impl<'a, K: Eq + Hash, V, S: BuildHasher> Deref for Ref<'a, K, V, S> {
    type Target = V;

    fn deref(&self) -> &V {
        self.value()
    }
}

pub struct RefMut<'a, K, V, S = RandomState> {
    guard: RwLockWriteGuard<'a, HashMap<K, V, S>>,
    k: *const K,
    v: *mut V,
}

unsafe impl<'a, K: Eq + Hash + Send, V: Send, S: BuildHasher> Send for RefMut<'a, K, V, S> {}

unsafe impl<'a, K: Eq + Hash + Send + Sync, V: Send + Sync, S: BuildHasher> Sync
    for RefMut<'a, K, V, S>
{
}

impl<'a, K: Eq + Hash, V, S: BuildHasher> RefMut<'a, K, V, S> {
    pub(crate) unsafe fn new(
        guard: RwLockWriteGuard<'a, HashMap<K, V, S>>,
        k: *const K,
        v: *mut V,
    ) -> Self {
        Self { guard, k, v }
    }

    pub fn key(&self) -> &K {
        self.pair().0
    }

    pub fn value(&self) -> &V {
        self.pair().1
    }

    pub fn value_mut(&mut self) -> &mut V {
        self.pair_mut().1
    }

    pub fn pair(&self) -> (&K, &V) {
        unsafe { (&*self.k, &*self.v) }
    }

    pub fn pair_mut(&mut self) -> (&K, &mut V) {
        unsafe { (&*self.k, &mut *self.v) }
    }

    pub fn downgrade(self) -> Ref<'a, K, V, S> {
        unsafe {
            Ref::new(
                parking_lot::RwLockWriteGuard::downgrade(self.guard),
                self.k,
                self.v,
            )
        }
    }
}

impl<'a, K: Eq + Hash, V, S: BuildHasher> Deref for RefMut<'a, K, V, S> {
    type Target = V;

    fn deref(&self) -> &V {
        self.value()
    }
}

impl<'a, K: Eq + Hash, V, S: BuildHasher> DerefMut for RefMut<'a, K, V, S> {
    fn deref_mut(&mut self) -> &mut V {
        self.value_mut()
    }
}
