use super::one::RefMut;
use crate::util;
use crate::util::SharedValue;
use crate::HashMap;
use core::hash::{BuildHasher, Hash};
use core::mem;
use core::ptr;
use parking_lot::RwLockWriteGuard;
use crate::seeded::RandomState;

pub enum Entry<'a, K, V, S = RandomState> {
    Occupied(OccupiedEntry<'a, K, V, S>),
    Vacant(VacantEntry<'a, K, V, S>),
}

impl<'a, K: Eq + Hash, V, S: BuildHasher> Entry<'a, K, V, S> {
    /// Apply a function to the stored value if it exists.
    pub fn and_modify(self, f: impl FnOnce(&mut V)) -> Self {
        match self {
            Entry::Occupied(mut entry) => {
                f(entry.get_mut());

                Entry::Occupied(entry)
            }

            Entry::Vacant(entry) => Entry::Vacant(entry),
        }
    }

    /// Get the key of the entry.
    pub fn key(&self) -> &K {
        match *self {
            Entry::Occupied(ref entry) => entry.key(),
            Entry::Vacant(ref entry) => entry.key(),
        }
    }

    /// Into the key of the entry.
    pub fn into_key(self) -> K {
        match self {
            Entry::Occupied(entry) => entry.into_key(),
            Entry::Vacant(entry) => entry.into_key(),
        }
    }

    /// Return a mutable reference to the element if it exists,
    /// otherwise insert the default and return a mutable reference to that.
    pub fn or_default(self) -> RefMut<'a, K, V, S>
    where
        V: Default,
    {
        match self {
            Entry::Occupied(entry) => entry.into_ref(),
            Entry::Vacant(entry) => entry.insert(V::default()),
        }
    }

    /// Return a mutable reference to the element if it exists,
    /// otherwise a provided value and return a mutable reference to that.
    pub fn or_insert(self, value: V) -> RefMut<'a, K, V, S> {
        match self {
            Entry::Occupied(entry) => entry.into_ref(),
            Entry::Vacant(entry) => entry.insert(value),
        }
    }

    /// Return a mutable reference to the element if it exists,
    /// otherwise insert the result of a provided function and return a mutable reference to that.
    pub fn or_insert_with(self, value: impl FnOnce() -> V) -> RefMut<'a, K, V, S> {
        match self {
            Entry::Occupied(entry) => entry.into_ref(),
            Entry::Vacant(entry) => entry.insert(value()),
        }
    }

    pub fn or_try_insert_with<E>(
        self,
        value: impl FnOnce() -> Result<V, E>,
    ) -> Result<RefMut<'a, K, V, S>, E> {
        match self {
            Entry::Occupied(entry) => Ok(entry.into_ref()),
            Entry::Vacant(entry) => Ok(entry.insert(value()?)),
        }
    }
}

pub struct VacantEntry<'a, K, V, S> {
    shard: RwLockWriteGuard<'a, HashMap<K, V, S>>,
    key: K,
}

unsafe impl<'a, K: Eq + Hash + Send, V: Send, S: BuildHasher> Send for VacantEntry<'a, K, V, S> {}

unsafe impl<'a, K: Eq + Hash + Send + Sync, V: Send + Sync, S: BuildHasher> Sync
    for VacantEntry<'a, K, V, S>
{
}

impl<'a, K: Eq + Hash, V, S: BuildHasher> VacantEntry<'a, K, V, S> {
    pub(crate) unsafe fn new(shard: RwLockWriteGuard<'a, HashMap<K, V, S>>, key: K) -> Self {
        Self { shard, key }
    }

    pub fn insert(mut self, value: V) -> RefMut<'a, K, V, S> {
        unsafe {
            let c: K = ptr::read(&self.key);

            self.shard.insert(self.key, SharedValue::new(value));

            let (k, v) = self.shard.get_key_value(&c).unwrap();

            let k = util::change_lifetime_const(k);

            let v = &mut *v.as_ptr();

            let r = RefMut::new(self.shard, k, v);

            mem::forget(c);

            r
        }
    }

    pub fn into_key(self) -> K {
        self.key
    }

    pub fn key(&self) -> &K {
        &self.key
    }
}

pub struct OccupiedEntry<'a, K, V, S> {
    shard: RwLockWriteGuard<'a, HashMap<K, V, S>>,
    elem: (*const K, *mut V),
    key: K,
}

unsafe impl<'a, K: Eq + Hash + Send, V: Send, S: BuildHasher> Send for OccupiedEntry<'a, K, V, S> {}

unsafe impl<'a, K: Eq + Hash + Send + Sync, V: Send + Sync, S: BuildHasher> Sync
    for OccupiedEntry<'a, K, V, S>
{
}

impl<'a, K: Eq + Hash, V, S: BuildHasher> OccupiedEntry<'a, K, V, S> {
    pub(crate) unsafe fn new(
        shard: RwLockWriteGuard<'a, HashMap<K, V, S>>,
        key: K,
        elem: (*const K, *mut V),
    ) -> Self {
        Self { shard, elem, key }
    }

    pub fn get(&self) -> &V {
        unsafe { &*self.elem.1 }
    }

    pub fn get_mut(&mut self) -> &mut V {
        unsafe { &mut *self.elem.1 }
    }

    pub fn insert(&mut self, value: V) -> V {
        mem::replace(self.get_mut(), value)
    }

    pub fn into_ref(self) -> RefMut<'a, K, V, S> {
        unsafe { RefMut::new(self.shard, self.elem.0, self.elem.1) }
    }

    pub fn into_key(self) -> K {
        self.key
    }

    pub fn key(&self) -> &K {
        unsafe { &*self.elem.0 }
    }

    pub fn remove(mut self) -> V {
        let key = unsafe { &*self.elem.0 };
        self.shard.remove(key).unwrap().into_inner()
    }

    pub fn remove_entry(mut self) -> (K, V) {
        let key = unsafe { &*self.elem.0 };
        let (k, v) = self.shard.remove_entry(key).unwrap();
        (k, v.into_inner())
    }

    pub fn replace_entry(mut self, value: V) -> (K, V) {
        let nk = self.key;
        let key = unsafe { &*self.elem.0 };
        let (k, v) = self.shard.remove_entry(key).unwrap();
        self.shard.insert(nk, SharedValue::new(value));
        (k, v.into_inner())
    }
}
