pub mod entry;
pub mod multiple;
pub mod one;
