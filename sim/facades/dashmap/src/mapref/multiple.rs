use crate::HashMap;
use core::hash::BuildHasher;
use core::hash::Hash;
use core::ops::{Deref, DerefMut};
use parking_lot::{RwLockReadGuard, RwLockWriteGuard};
use crate::seeded::RandomState;
use std::sync::Arc;

pub struct RefMulti<'a, K, V, S = RandomState> {
    _guard: Arc<RwLockReadGuard<'a, HashMap<K, V, S>>>,
    k: *const K,
    v: *const V,
}

unsafe impl<'a, K: Eq + Hash + Send, V: Send, S: BuildHasher> Send for RefMulti<'a, K, V, S> {}

unsafe impl<'a, K: Eq + Hash + Send + Sync, V: Send + Sync, S: BuildHasher> Sync
    for RefMulti<'a, K, V, S>
{
}

impl<'a, K: Eq + Hash, V, S: BuildHasher> RefMulti<'a, K, V, S> {
    pub(crate) unsafe fn new(
        guard: Arc<RwLockReadGuard<'a, HashMap<K, V, S>>>,
        k: *const K,
        v: *const V,
    ) -> Self {
        Self {
            _guard: guard,
            k,
            v,
        }
    }

    pub fn key(&self) -> &K {
        self.pair().0
    }

    pub fn value(&self) -> &V {
        self.pair().1
    }

    pub fn pair(&self) -> (&K, &V) {
        unsafe { (&*self.k, &*self.v) }
    }
}

impl<'a, K: Eq + Hash, V, S: BuildHasher> Deref for RefMulti<'a, K, V, S> {
    type Target = V;

    fn deref(&self) -> &V {
        self.value()
    }
}

pub struct RefMutMulti<'a, K, V, S = RandomState> {
    _guard: Arc<RwLockWriteGuard<'a, HashMap<K, V, S>>>,
    k: *const K,
    v: *mut V,
}

unsafe impl<'a, K: Eq + Hash + Send, V: Send, S: BuildHasher> Send for RefMutMulti<'a, K, V, S> {}

unsafe impl<'a, K: Eq + Hash + Send + Sync, V: Send + Sync, S: BuildHasher> Sync
    for RefMutMulti<'a, K, V, S>
{
}

impl<'a, K: Eq + Hash, V, S: BuildHasher> RefMutMulti<'a, K, V, S> {
    pub(crate) unsafe fn new(
        guard: Arc<RwLockWriteGuard<'a, HashMap<K, V, S>>>,
        k: *const K,
        v: *mut V,
    ) -> Self {
        Self {
            _guard: guard,
            k,
            v,
        }
    }

    pub fn key(&self) -> &K {
        self.pair().0
    }

    pub fn value(&self) -> &V {
        self.pair().1
    }

    pub fn value_mut(&mut self) -> &mut V {
        self.pair_mut().1
    }

    pub fn pair(&self) -> (&K, &V) {
        unsafe { (&*self.k, &*self.v) }
    }

    pub fn pair_mut(&mut self) -> (&K, &mut V) {
        unsafe { (&*self.k, &mut *self.v) }
    }
}

impl<'a, K: Eq + Hash, V, S: BuildHasher> Deref for RefMutMulti<'a, K, V, S> {
    type Target = V;

    fn deref(&self) -> &V {
        self.value()
    }
}

impl<'a, K: Eq + Hash, V, S: BuildHasher> DerefMut for RefMutMulti<'a, K, V, S> {
    fn deref_mut(&mut self) -> &mut V {
        self.value_mut()
    }
}
