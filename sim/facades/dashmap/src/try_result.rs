/// Represents the result of a non-blocking read from a [DashMap](crate::DashMap).
#[derive(Debug)]
pub enum TryResult<R> {
    /// The value was present in the map, and the lock for the shard was successfully obtained.
    Present(R),
    /// The shard wasn't locked, and the value wasn't present in the map.
    Absent,
    /// The shard was locked.
    Locked,
}

impl<R> TryResult<R> {
    /// Returns `true` if the value was present in the map, and the lock for the shard was successfully obtained.
    pub fn is_present(&self) -> bool {
        matches!(self, TryResult::Present(_))
    }

    /// Returns `true` if the shard wasn't locked, and the value wasn't present in the map.
    pub fn is_absent(&self) -> bool {
        matches!(self, TryResult::Absent)
    }

    /// Returns `true` if the shard was locked.
    pub fn is_locked(&self) -> bool {
        matches!(self, TryResult::Locked)
    }

    /// If `self` is [Present](TryResult::Present), returns the reference to the value in the map.
    /// Panics if `self` is not [Present](TryResult::Present).
    pub fn unwrap(self) -> R {
        match self {
            TryResult::Present(r) => r,
            TryResult::Locked => panic!("Called unwrap() on TryResult::Locked"),
            TryResult::Absent => panic!("Called unwrap() on TryResult::Absent"),
        }
    }

    /// If `self` is [Present](TryResult::Present), returns the reference to the value in the map.
    /// If `self` is not [Present](TryResult::Present), returns `None`.
    pub fn try_unwrap(self) -> Option<R> {
        match self {
            TryResult::Present(r) => Some(r),
            _ => None,
        }
    }
}
