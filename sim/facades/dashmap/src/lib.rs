#![allow(clippy::type_complexity)]

pub mod iter;
pub mod iter_set;
pub mod mapref;
mod read_only;
#[cfg(feature = "serde")]
mod serde;
mod set;
pub mod setref;
mod t;
pub mod try_result;
mod util;
pub mod seeded;

#[cfg(feature = "rayon")]
pub mod rayon {
    pub mod map;
    pub mod set;
}

use cfg_if::cfg_if;
use core::borrow::Borrow;
use core::fmt;
use core::hash::{BuildHasher, Hash, Hasher};
use core::iter::FromIterator;
use core::ops::{BitAnd, BitOr, Shl, Shr, Sub};
use iter::{Iter, IterMut, OwningIter};
use mapref::entry::{Entry, OccupiedEntry, VacantEntry};
use mapref::multiple::RefMulti;
use mapref::one::{Ref, RefMut};
use parking_lot::{RwLock, RwLockReadGuard, RwLockWriteGuard};
pub use read_only::ReadOnlyView;
pub use set::DashSet;
use crate::seeded::RandomState;
pub use t::Map;
use try_result::TryResult;

cfg_if! {
    if #[cfg(feature = "raw-api")] {
        pub use util::SharedValue;
    } else {
        use util::SharedValue;
    }
}

pub(crate) type HashMap<K, V, S> = std::collections::HashMap<K, SharedValue<V>, S>;

fn default_shard_amount() -> usize {
    (num_cpus::get() * 4).next_power_of_two()
}

fn ncb(shard_amount: usize) -> usize {
    shard_amount.trailing_zeros() as usize
}

/// DashMap is an implementation of a concurrent associative array/hashmap in Rust.
///
/// DashMap tries to implement an easy to use API similar to `std::collections::HashMap`
/// with some slight changes to handle concurrency.
///
/// DashMap tries to be very simple to use and to be a direct replacement for `RwLock<HashMap<K, V, S>>`.
/// To accomplish these all methods take `&self` instead modifying methods taking `&mut self`.
/// This allows you to put a DashMap in an `Arc<T>` and share it between threads while being able to modify it.
///
/// Documentation mentioning locking behaviour acts in the reference frame of the calling thread.
/// This means that it is safe to ignore it across multiple threads.
pub struct DashMap<K, V, S = RandomState> {
    shift: usize,
    shards: Box<[RwLock<HashMap<K, V, S>>]>,
    hasher: S,
}

impl<K: Eq + Hash + Clone, V: Clone, S: Clone> Clone for DashMap<K, V, S> {
    fn clone(&self) -> Self {
        let mut inner_shards = Vec::new();

        for shard in self.shards.iter() {
            let shard = shard.read();

            inner_shards.push(RwLock::new((*shard).clone()));
        }

        Self {
            shift: self.shift,
            shards: inner_shards.into_boxed_slice(),
            hasher: self.hasher.clone(),
        }
    }
}

impl<K, V, S> Default for DashMap<K, V, S>
where
    K: Eq + Hash,
    S: Default + BuildHasher + Clone,
{
    fn default() -> Self {
        Self::with_hasher(Default::default())
    }
}

impl<'a, K: 'a + Eq + Hash, V: 'a> DashMap<K, V, RandomState> {
    /// Creates a new DashMap with a capacity of 0.
    ///
    /// # Examples
    ///
    /// ```
    /// use dashmap::DashMap;
    ///
    /// let reviews = DashMap::new();
    /// reviews.insert("Veloren", "What a fantastic game!");
    /// ```
    pub fn new() -> Self {
        DashMap::with_hasher(RandomState::default())
    }

    /// Creates a new DashMap with a specified starting capacity.
    ///
    /// # Examples
    ///
    /// ```
    /// use dashmap::DashMap;
    ///
    /// let mappings = DashMap::with_capacity(2);
    /// mappings.insert(2, 4);
    /// mappings.insert(8, 16);
    /// ```
    pub fn with_capacity(capacity: usize) -> Self {
        DashMap::with_capacity_and_hasher(capacity, RandomState::default())
    }

    /// Creates a new DashMap with a specified shard amount
    ///
    /// shard_amount should greater than 0 and be a power of two.
    /// If a shard_amount which is not a power of two is provided, the function will panic.
    ///
    /// # Examples
    ///
    /// ```
    /// use dashmap::DashMap;
    ///
    /// let mappings = DashMap::with_shard_amount(32);
    /// mappings.insert(2, 4);
    /// mappings.insert(8, 16);
    /// ```
    pub fn with_shard_amount(shard_amount: usize) -> Self {
        Self::with_capacity_and_hasher_and_shard_amount(0, RandomState::default(), shard_amount)
    }

    /// Creates a new DashMap with a specified capacity and shard amount.
    ///
    /// shard_amount should greater than 0 and be a power of two.
    /// If a shard_amount which is not a power of two is provided, the function will panic.
    ///
    /// # Examples
    ///
    /// ```
    /// use dashmap::DashMap;
    ///
    /// let mappings = DashMap::with_capacity_and_shard_amount(32, 32);
    /// mappings.insert(2, 4);
    /// mappings.insert(8, 16);
    /// ```
    pub fn with_capacity_and_shard_amount(capacity: usize, shard_amount: usize) -> Self {
        Self::with_capacity_and_hasher_and_shard_amount(
            capacity,
            RandomState::default(),
            shard_amount,
        )
    }
}

impl<'a, K: 'a + Eq + Hash, V: 'a, S: BuildHasher + Clone> DashMap<K, V, S> {
    /// Wraps this `DashMap` into a read-only view. This view allows to obtain raw references to the stored values.
    pub fn into_read_only(self) -> ReadOnlyView<K, V, S> {
        ReadOnlyView::new(self)
    }

    /// Creates a new DashMap with a capacity of 0 and the provided hasher.
    ///
    /// # Examples
    ///
    /// ```
    /// use dashmap::DashMap;
    /// use std::collections::hash_map::RandomState;
    ///
    /// let s = RandomState::new();
    /// let reviews = DashMap::with_hasher(s);
    /// reviews.insert("Veloren", "What a fantastic game!");
    /// ```
    pub fn with_hasher(hasher: S) -> Self {
        Self::with_capacity_and_hasher(0, hasher)
    }

    /// Creates a new DashMap with a specified starting capacity and hasher.
    ///
    /// # Examples
    ///
    /// ```
    /// use dashmap::DashMap;
    /// use std::collections::hash_map::RandomState;
    ///
    /// let s = RandomState::new();
    /// let mappings = DashMap::with_capacity_and_hasher(2, s);
    /// mappings.insert(2, 4);
    /// mappings.insert(8, 16);
    /// ```
    pub fn with_capacity_and_hasher(capacity: usize, hasher: S) -> Self {
        Self::with_capacity_and_hasher_and_shard_amount(capacity, hasher, default_shard_amount())
    }

    /// Creates a new DashMap with a specified hasher and shard amount
    ///
    /// shard_amount should greater than 0 and be a power of two.
    /// If a shard_amount which is not a power of two is provided, the function will panic.
    ///
    /// # Examples
    ///
    /// ```
    /// use dashmap::DashMap;
    /// use std::collections::hash_map::RandomState;
    ///
    /// let s = RandomState::new();
    /// let mappings = DashMap::with_hasher_and_shard_amount(s, 32);
    /// mappings.insert(2, 4);
    /// mappings.insert(8, 16);
    /// ```
    pub fn with_hasher_and_shard_amount(hasher: S, shard_amount: usize) -> Self {
        Self::with_capacity_and_hasher_and_shard_amount(0, hasher, shard_amount)
    }

    /// Creates a new DashMap with a specified starting capacity, hasher and shard_amount.
    ///
    /// shard_amount should greater than 0 and be a power of two.
    /// If a shard_amount which is not a power of two is provided, the function will panic.
    ///
    /// # Examples
    ///
    /// ```
    /// use dashmap::DashMap;
    /// use std::collections::hash_map::RandomState;
    ///
    /// let s = RandomState::new();
    /// let mappings = DashMap::with_capacity_and_hasher_and_shard_amount(2, s, 32);
    /// mappings.insert(2, 4);
    /// mappings.insert(8, 16);
    /// ```
    pub fn with_capacity_and_hasher_and_shard_amount(
        mut capacity: usize,
        hasher: S,
        shard_amount: usize,
    ) -> Self {
        assert!(shard_amount > 0);
        assert!(shard_amount.is_power_of_two());

        let shift = util::ptr_size_bits() - ncb(shard_amount);

        if capacity != 0 {
            capacity = (capacity + (shard_amount - 1)) & !(shard_amount - 1);
        }

        let cps = capacity / shard_amount;

        let shards = (0..shard_amount)
            .map(|_| RwLock::new(HashMap::with_capacity_and_hasher(cps, hasher.clone())))
            .collect();

        Self {
            shift,
            shards,
            hasher,
        }
    }

    /// Hash a given item to produce a usize.
    /// Uses the provided or default HashBuilder.
    pub fn hash_usize<T: Hash>(&self, item: &T) -> usize {
        let mut hasher = self.hasher.build_hasher();

        item.hash(&mut hasher);

        hasher.finish() as usize
    }

    cfg_if! {
        if #[cfg(feature = "raw-api")] {
            /// Allows you to peek at the inner shards that store your data.
            /// You should probably not use this unless you know what you are doing.
            ///
            /// Requires the `raw-api` feature to be enabled.
            ///
            /// # Examples
            ///
            /// ```
            /// use dashmap::DashMap;
            ///
            /// let map = DashMap::<(), ()>::new();
            /// println!("Amount of shards: {}", map.shards().len());
            /// ```
            pub fn shards(&self) -> &[RwLock<HashMap<K, V, S>>] {
                &self.shards
            }
        } else {
            #[allow(dead_code)]
            pub(crate) fn shards(&self) -> &[RwLock<HashMap<K, V, S>>] {
                &self.shards
            }
        }
    }

    cfg_if! {
        if #[cfg(feature = "raw-api")] {
            /// Finds which shard a certain key is stored in.
            /// You should probably not use this unless you know what you are doing.
            /// Note that shard selection is dependent on the default or provided HashBuilder.
            ///
            /// Requires the `raw-api` feature to be enabled.
            ///
            /// # Examples
            ///
            /// ```
            /// use dashmap::DashMap;
            ///
            /// let map = DashMap::new();
            /// map.insert("coca-cola", 1.4);
            /// println!("coca-cola is stored in shard: {}", map.determine_map("coca-cola"));
            /// ```
            pub fn determine_map<Q>(&self, key: &Q) -> usize
            where
                K: Borrow<Q>,
                Q: Hash + Eq + ?Sized,
            {
                let hash = self.hash_usize(&key);
                self.determine_shard(hash)
            }
        }
    }

    cfg_if! {
        if #[cfg(feature = "raw-api")] {
            /// Finds which shard a certain hash is stored in.
            ///
            /// Requires the `raw-api` feature to be enabled.
            ///
            /// # Examples
            ///
            /// ```
            /// use dashmap::DashMap;
            ///
            /// let map: DashMap<i32, i32> = DashMap::new();
            /// let key = "key";
            /// let hash = map.hash_usize(&key);
            /// println!("hash is stored in shard: {}", map.determine_shard(hash));
            /// ```
            pub fn determine_shard(&self, hash: usize) -> usize {
                // Leave the high 7 bits for the HashBrown SIMD tag.
                (hash << 7) >> self.shift
            }
        } else {

            pub(crate) fn determine_shard(&self, hash: usize) -> usize {
                // Leave the high 7 bits for the HashBrown SIMD tag.
                (hash << 7) >> self.shift
            }
        }
    }

    /// Returns a reference to the map's [`BuildHasher`].
    ///
    /// # Examples
    ///
    /// ```rust
    /// use dashmap::DashMap;
    /// use std::collections::hash_map::RandomState;
    ///
    /// let hasher = RandomState::new();
    /// let map: DashMap<i32, i32> = DashMap::new();
    /// let hasher: &RandomState = map.hasher();
    /// ```
    ///
    /// [`BuildHasher`]: https://doc.rust-lang.org/std/hash/trait.BuildHasher.html
    pub fn hasher(&self) -> &S {
        &self.hasher
    }

    /// Inserts a key and a value into the map. Returns the old value associated with the key if there was one.
    ///
    /// **Locking behaviour:** May deadlock if called when holding any sort of reference into the map.
    ///
    /// # Examples
    ///
    /// ```
    /// use dashmap::DashMap;
    ///
    /// let map = DashMap::new();
    /// map.insert("I am the key!", "And I am the value!");
    /// ```
    pub fn insert(&self, key: K, value: V) -> Option<V> {
        self._insert(key, value)
    }

    /// Removes an entry from the map, returning the key and value if they existed in the map.
    ///
    /// **Locking behaviour:** May deadlock if called when holding any sort of reference into the map.
    ///
    /// # Examples
    ///
    /// ```
    /// use dashmap::DashMap;
    ///
    /// let soccer_team = DashMap::new();
    /// soccer_team.insert("Jack", "Goalie");
    /// assert_eq!(soccer_team.remove("Jack").unwrap().1, "Goalie");
    /// ```
    pub fn remove<Q>(&self, key: &Q) -> Option<(K, V)>
    where
        K: Borrow<Q>,
        Q: Hash + Eq + ?Sized,
    {
        self._remove(key)
    }

    /// Removes an entry from the map, returning the key and value
    /// if the entry existed and the provided conditional function returned true.
    ///
    /// **Locking behaviour:** May deadlock if called when holding any sort of reference into the map.
    ///
    /// ```
    /// use dashmap::DashMap;
    ///
    /// let soccer_team = DashMap::new();
    /// soccer_team.insert("Sam", "Forward");
    /// soccer_team.remove_if("Sam", |_, position| position == &"Goalie");
    /// assert!(soccer_team.contains_key("Sam"));
    /// ```
    /// ```
    /// use dashmap::DashMap;
    ///
    /// let soccer_team = DashMap::new();
    /// soccer_team.insert("Sam", "Forward");
    /// soccer_team.remove_if("Sam", |_, position| position == &"Forward");
    /// assert!(!soccer_team.contains_key("Sam"));
    /// ```
    pub fn remove_if<Q>(&self, key: &Q, f: impl FnOnce(&K, &V) -> bool) -> Option<(K, V)>
    where
        K: Borrow<Q>,
        Q: Hash + Eq + ?Sized,
    {
        self._remove_if(key, f)
    }

    pub fn remove_if_mut<Q>(&self, key: &Q, f: impl FnOnce(&K, &mut V) -> bool) -> Option<(K, V)>
    where
        K: Borrow<Q>,
        Q: Hash + Eq + ?Sized,
    {
        self._remove_if_mut(key, f)
    }

    /// Creates an iterator over a DashMap yielding immutable references.
    ///
    /// **Locking behaviour:** May deadlock if called when holding a mutable reference into the map.
    ///
    /// # Examples
    ///
    /// ```
    /// use dashmap::DashMap;
    ///
    /// let words = DashMap::new();
    /// words.insert("hello", "world");
    /// assert_eq!(words.iter().count(), 1);
    /// ```
    pub fn iter(&'a self) -> Iter<'a, K, V, S, DashMap<K, V, S>> {
        self._iter()
    }

    /// Iterator over a DashMap yielding mutable references.
    ///
    /// **Locking behaviour:** May deadlock if called when holding any sort of reference into the map.
    ///
    /// # Examples
    ///
    /// ```
    /// use dashmap::DashMap;
    ///
    /// let map = DashMap::new();
    /// map.insert("Johnny", 21);
    /// map.iter_mut().for_each(|mut r| *r += 1);
    /// assert_eq!(*map.get("Johnny").unwrap(), 22);
    /// ```
    pub fn iter_mut(&'a self) -> IterMut<'a, K, V, S, DashMap<K, V, S>> {
        self._iter_mut()
    }

    /// Get a immutable reference to an entry in the map
    ///
    /// **Locking behaviour:** May deadlock if called when holding a mutable reference into the map.
    ///
    /// # Examples
    ///
    /// ```
    /// use dashmap::DashMap;
    ///
    /// let youtubers = DashMap::new();
    /// youtubers.insert("Bosnian Bill", 457000);
    /// assert_eq!(*youtubers.get("Bosnian Bill").unwrap(), 457000);
    /// ```
    pub fn get<Q>(&'a self, key: &Q) -> Option<Ref<'a, K, V, S>>
    where
        K: Borrow<Q>,
        Q: Hash + Eq + ?Sized,
    {
        self._get(key)
    }

    /// Get a mutable reference to an entry in the map
    ///
    /// **Locking behaviour:** May deadlock if called when holding any sort of reference into the map.
    ///
    /// # Examples
    ///
    /// ```
    /// use dashmap::DashMap;
    ///
    /// let class = DashMap::new();
    /// class.insert("Albin", 15);
    /// *class.get_mut("Albin").unwrap() -= 1;
    /// assert_eq!(*class.get("Albin").unwrap(), 14);
    /// ```
    pub fn get_mut<Q>(&'a self, key: &Q) -> Option<RefMut<'a, K, V, S>>
    where
        K: Borrow<Q>,
        Q: Hash + Eq + ?Sized,
    {
        self._get_mut(key)
    }

    /// Get an immutable reference to an entry in the map, if the shard is not locked.
    /// If the shard is locked, the function will return [TryResult::Locked].
    ///
    /// # Examples
    ///
    /// ```
    /// use dashmap::DashMap;
    /// use dashmap::try_result::TryResult;
    ///
    /// let map = DashMap::new();
    /// map.insert("Johnny", 21);
    ///
    /// assert_eq!(*map.try_get("Johnny").unwrap(), 21);
    ///
    /// let _result1_locking = map.get_mut("Johnny");
    ///
    /// let result2 = map.try_get("Johnny");
    /// assert!(result2.is_locked());
    /// ```
    pub fn try_get<Q>(&'a self, key: &Q) -> TryResult<Ref<'a, K, V, S>>
    where
        K: Borrow<Q>,
        Q: Hash + Eq + ?Sized,
    {
        self._try_get(key)
    }

    /// Get a mutable reference to an entry in the map, if the shard is not locked.
    /// If the shard is locked, the function will return [TryResult::Locked].
    ///
    /// # Examples
    ///
    /// ```
    /// use dashmap::DashMap;
    /// use dashmap::try_result::TryResult;
    ///
    /// let map = DashMap::new();
    /// map.insert("Johnny", 21);
    ///
    /// *map.try_get_mut("Johnny").unwrap() += 1;
    /// assert_eq!(*map.get("Johnny").unwrap(), 22);
    ///
    /// let _result1_locking = map.get("Johnny");
    ///
    /// let result2 = map.try_get_mut("Johnny");
    /// assert!(result2.is_locked());
    /// ```
    pub fn try_get_mut<Q>(&'a self, key: &Q) -> TryResult<RefMut<'a, K, V, S>>
    where
        K: Borrow<Q>,
        Q: Hash + Eq + ?Sized,
    {
        self._try_get_mut(key)
    }

    /// Remove excess capacity to reduce memory usage.
    ///
    /// **Locking behaviour:** May deadlock if called when holding any sort of reference into the map.
    pub fn shrink_to_fit(&self) {
        self._shrink_to_fit();
    }

    /// Retain elements that whose predicates return true
    /// and discard elements whose predicates return false.
    ///
    /// **Locking behaviour:** May deadlock if called when holding any sort of reference into the map.
    ///
    /// # Examples
    ///
    /// ```
    /// use dashmap::DashMap;
    ///
    /// let people = DashMap::new();
    /// people.insert("Albin", 15);
    /// people.insert("Jones", 22);
    /// people.insert("Charlie", 27);
    /// people.retain(|_, v| *v > 20);
    /// assert_eq!(people.len(), 2);
    /// ```
    pub fn retain(&self, f: impl FnMut(&K, &mut V) -> bool) {
        self._retain(f);
    }

    /// Fetches the total number of key-value pairs stored in the map.
    ///
    /// **Locking behaviour:** May deadlock if called when holding a mutable reference into the map.
    ///
    /// # Examples
    ///
    /// ```
    /// use dashmap::DashMap;
    ///
    /// let people = DashMap::new();
    /// people.insert("Albin", 15);
    /// people.insert("Jones", 22);
    /// people.insert("Charlie", 27);
    /// assert_eq!(people.len(), 3);
    /// ```
    pub fn len(&self) -> usize {
        self._len()
    }

    /// Checks if the map is empty or not.
    ///
    /// **Locking behaviour:** May deadlock if called when holding a mutable reference into the map.
    ///
    /// # Examples
    ///
    /// ```
    /// use dashmap::DashMap;
    ///
    /// let map = DashMap::<(), ()>::new();
    /// assert!(map.is_empty());
    /// ```
    pub fn is_empty(&self) -> bool {
        self._is_empty()
    }

    /// Removes all key-value pairs in the map.
    ///
    /// **Locking behaviour:** May deadlock if called when holding any sort of reference into the map.
    ///
    /// # Examples
    ///
    /// ```
    /// use dashmap::DashMap;
    ///
    /// let stats = DashMap::new();
    /// stats.insert("Goals", 4);
    /// assert!(!stats.is_empty());
    /// stats.clear();
    /// assert!(stats.is_empty());
    /// ```
    pub fn clear(&self) {
        self._clear();
    }

    /// Returns how many key-value pairs the map can store without reallocating.
    ///
    /// **Locking behaviour:** May deadlock if called when holding a mutable reference into the map.
    pub fn capacity(&self) -> usize {
        self._capacity()
    }

    /// Modify a specific value according to a function.
    ///
    /// **Locking behaviour:** May deadlock if called when holding any sort of reference into the map.
    ///
    /// # Examples
    ///
    /// ```
    /// use dashmap::DashMap;
    ///
    /// let stats = DashMap::new();
    /// stats.insert("Goals", 4);
    /// stats.alter("Goals", |_, v| v * 2);
    /// assert_eq!(*stats.get("Goals").unwrap(), 8);
    /// ```
    ///
    /// # Panics
    ///
    /// If the given closure panics, then `alter` will abort the process
    pub fn alter<Q>(&self, key: &Q, f: impl FnOnce(&K, V) -> V)
    where
        K: Borrow<Q>,
        Q: Hash + Eq + ?Sized,
    {
        self._alter(key, f);
    }

    /// Modify every value in the map according to a function.
    ///
    /// **Locking behaviour:** May deadlock if called when holding any sort of reference into the map.
    ///
    /// # Examples
    ///
    /// ```
    /// use dashmap::DashMap;
    ///
    /// let stats = DashMap::new();
    /// stats.insert("Wins", 4);
    /// stats.insert("Losses", 2);
    /// stats.alter_all(|_, v| v + 1);
    /// assert_eq!(*stats.get("Wins").unwrap(), 5);
    /// assert_eq!(*stats.get("Losses").unwrap(), 3);
    /// ```
    ///
    /// # Panics
    ///
    /// If the given closure panics, then `alter_all` will abort the process
    pub fn alter_all(&self, f: impl FnMut(&K, V) -> V) {
        self._alter_all(f);
    }

    /// Scoped access into an item of the map according to a function.
    ///
    /// **Locking behaviour:** May deadlock if called when holding any sort of reference into the map.
    ///
    /// # Examples
    ///
    /// ```
    /// use dashmap::DashMap;
    ///
    /// let warehouse = DashMap::new();
    /// warehouse.insert(4267, ("Banana", 100));
    /// warehouse.insert(2359, ("Pear", 120));
    /// let fruit = warehouse.view(&4267, |_k, v| *v);
    /// assert_eq!(fruit, Some(("Banana", 100)));
    /// ```
    ///
    /// # Panics
    ///
    /// If the given closure panics, then `view` will abort the process
    pub fn view<Q, R>(&self, key: &Q, f: impl FnOnce(&K, &V) -> R) -> Option<R>
    where
        K: Borrow<Q>,
        Q: Hash + Eq + ?Sized,
    {
        self._view(key, f)
    }

    /// Checks if the map contains a specific key.
    ///
    /// **Locking behaviour:** May deadlock if called when holding a mutable reference into the map.
    ///
    /// # Examples
    ///
    /// ```
    /// use dashmap::DashMap;
    ///
    /// let team_sizes = DashMap::new();
    /// team_sizes.insert("Dakota Cherries", 23);
    /// assert!(team_sizes.contains_key("Dakota Cherries"));
    /// ```
    pub fn contains_key<Q>(&self, key: &Q) -> bool
    where
        K: Borrow<Q>,
        Q: Hash + Eq + ?Sized,
    {
        self._contains_key(key)
    }

    /// Advanced entry API that tries to mimic `std::collections::HashMap`.
    /// See the documentation on `dashmap::mapref::entry` for more details.
    ///
    /// **Locking behaviour:** May deadlock if called when holding any sort of reference into the map.
    pub fn entry(&'a self, key: K) -> Entry<'a, K, V, S> {
        self._entry(key)
    }

    /// Advanced entry API that tries to mimic `std::collections::HashMap`.
    /// See the documentation on `dashmap::mapref::entry` for more details.
    ///
    /// Returns None if the shard is currently locked.
    pub fn try_entry(&'a self, key: K) -> Option<Entry<'a, K, V, S>> {
        self._try_entry(key)
    }
}

impl<'a, K: 'a + Eq + Hash, V: 'a, S: 'a + BuildHasher + Clone> Map<'a, K, V, S>
    for DashMap<K, V, S>
{
    fn _shard_count(&self) -> usize {
        self.shards.len()
    }

    unsafe fn _get_read_shard(&'a self, i: usize) -> &'a HashMap<K, V, S> {
        debug_assert!(i < self.shards.len());

        &*self.shards.get_unchecked(i).data_ptr()
    }

    unsafe fn _yield_read_shard(&'a self, i: usize) -> RwLockReadGuard<'a, HashMap<K, V, S>> {
        debug_assert!(i < self.shards.len());

        self.shards.get_unchecked(i).read()
    }

    unsafe fn _yield_write_shard(&'a self, i: usize) -> RwLockWriteGuard<'a, HashMap<K, V, S>> {
        debug_assert!(i < self.shards.len());

        self.shards.get_unchecked(i).write()
    }

    unsafe fn _try_yield_read_shard(
        &'a self,
        i: usize,
    ) -> Option<RwLockReadGuard<'a, HashMap<K, V, S>>> {
        debug_assert!(i < self.shards.len());

        self.shards.get_unchecked(i).try_read()
    }

    unsafe fn _try_yield_write_shard(
        &'a self,
        i: usize,
    ) -> Option<RwLockWriteGuard<'a, HashMap<K, V, S>>> {
        debug_assert!(i < self.shards.len());

        self.shards.get_unchecked(i).try_write()
    }

    fn _insert(&self, key: K, value: V) -> Option<V> {
        let hash = self.hash_usize(&key);

        let idx = self.determine_shard(hash);

        let mut shard = unsafe { self._yield_write_shard(idx) };

        shard
            .insert(key, SharedValue::new(value))
            .map(|v| v.into_inner())
    }

    fn _remove<Q>(&self, key: &Q) -> Option<(K, V)>
    where
        K: Borrow<Q>,
        Q: Hash + Eq + ?Sized,
    {
        let hash = self.hash_usize(&key);

        let idx = self.determine_shard(hash);

        let mut shard = unsafe { self._yield_write_shard(idx) };

        shard.remove_entry(key).map(|(k, v)| (k, v.into_inner()))
    }

    fn _remove_if<Q>(&self, key: &Q, f: impl FnOnce(&K, &V) -> bool) -> Option<(K, V)>
    where
        K: Borrow<Q>,
        Q: Hash + Eq + ?Sized,
    {
        let hash = self.hash_usize(&key);

        let idx = self.determine_shard(hash);

        let mut shard = unsafe { self._yield_write_shard(idx) };

        if let Some((k, v)) = shard.get_key_value(key) {
            if f(k, v.get()) {
                shard.remove_entry(key).map(|(k, v)| (k, v.into_inner()))
            } else {
                None
            }
        } else {
            None
        }
    }

    fn _remove_if_mut<Q>(&self, key: &Q, f: impl FnOnce(&K, &mut V) -> bool) -> Option<(K, V)>
    where
        K: Borrow<Q>,
        Q: Hash + Eq + ?Sized,
    {
        let hash = self.hash_usize(&key);

        let idx = self.determine_shard(hash);

        let mut shard = unsafe { self._yield_write_shard(idx) };

        if let Some((kptr, vptr)) = shard.get_key_value(&key) {
            unsafe {
                let kptr: *const K = kptr;
                let vptr: *mut V = vptr.as_ptr();

                if f(&*kptr, &mut *vptr) {
                    shard.remove_entry(key).map(|(k, v)| (k, v.into_inner()))
                } else {
                    None
                }
            }
        } else {
            None
        }
    }

    fn _iter(&'a self) -> Iter<'a, K, V, S, DashMap<K, V, S>> {
        Iter::new(self)
    }

    fn _iter_mut(&'a self) -> IterMut<'a, K, V, S, DashMap<K, V, S>> {
        IterMut::new(self)
    }

    fn _get<Q>(&'a self, key: &Q) -> Option<Ref<'a, K, V, S>>
    where
        K: Borrow<Q>,
        Q: Hash + Eq + ?Sized,
    {
        let hash = self.hash_usize(&key);

        let idx = self.determine_shard(hash);

        let shard = unsafe { self._yield_read_shard(idx) };

        if let Some((kptr, vptr)) = shard.get_key_value(key) {
            unsafe {
                let kptr: *const K = kptr;
                let vptr: *const V = vptr.get();
                Some(Ref::new(shard, kptr, vptr))
            }
        } else {
            None
        }
    }

    fn _get_mut<Q>(&'a self, key: &Q) -> Option<RefMut<'a, K, V, S>>
    where
        K: Borrow<Q>,
        Q: Hash + Eq + ?Sized,
    {
        let hash = self.hash_usize(&key);

        let idx = self.determine_shard(hash);

        let shard = unsafe { self._yield_write_shard(idx) };

        if let Some((kptr, vptr)) = shard.get_key_value(key) {
            unsafe {
                let kptr: *const K = kptr;
                let vptr: *mut V = vptr.as_ptr();
                Some(RefMut::new(shard, kptr, vptr))
            }
        } else {
            None
        }
    }

    fn _try_get<Q>(&'a self, key: &Q) -> TryResult<Ref<'a, K, V, S>>
    where
        K: Borrow<Q>,
        Q: Hash + Eq + ?Sized,
    {
        let hash = self.hash_usize(&key);

        let idx = self.determine_shard(hash);

        let shard = match unsafe { self._try_yield_read_shard(idx) } {
            Some(shard) => shard,
            None => return TryResult::Locked,
        };

        if let Some((kptr, vptr)) = shard.get_key_value(key) {
            unsafe {
                let kptr: *const K = kptr;
                let vptr: *const V = vptr.get();
                TryResult::Present(Ref::new(shard, kptr, vptr))
            }
        } else {
            TryResult::Absent
        }
    }

    fn _try_get_mut<Q>(&'a self, key: &Q) -> TryResult<RefMut<'a, K, V, S>>
    where
        K: Borrow<Q>,
        Q: Hash + Eq + ?Sized,
    {
        let hash = self.hash_usize(&key);

        let idx = self.determine_shard(hash);

        let shard = match unsafe { self._try_yield_write_shard(idx) } {
            Some(shard) => shard,
            None => return TryResult::Locked,
        };

        if let Some((kptr, vptr)) = shard.get_key_value(key) {
            unsafe {
                let kptr: *const K = kptr;
                let vptr: *mut V = vptr.as_ptr();
                TryResult::Present(RefMut::new(shard, kptr, vptr))
            }
        } else {
            TryResult::Absent
        }
    }

    fn _shrink_to_fit(&self) {
        self.shards.iter().for_each(|s| s.write().shrink_to_fit());
    }

    fn _retain(&self, mut f: impl FnMut(&K, &mut V) -> bool) {
        self.shards
            .iter()
            .for_each(|s| s.write().retain(|k, v| f(k, v.get_mut())));
    }

    fn _len(&self) -> usize {
        self.shards.iter().map(|s| s.read().len()).sum()
    }

    fn _capacity(&self) -> usize {
        self.shards.iter().map(|s| s.read().capacity()).sum()
    }

    fn _alter<Q>(&self, key: &Q, f: impl FnOnce(&K, V) -> V)
    where
        K: Borrow<Q>,
        Q: Hash + Eq + ?Sized,
    {
        if let Some(mut r) = self.get_mut(key) {
            util::map_in_place_2(r.pair_mut(), f);
        }
    }

    fn _alter_all(&self, mut f: impl FnMut(&K, V) -> V) {
        self.shards.iter().for_each(|s| {
            s.write()
                .iter_mut()
                .for_each(|(k, v)| util::map_in_place_2((k, v.get_mut()), &mut f));
        });
    }

    fn _view<Q, R>(&self, key: &Q, f: impl FnOnce(&K, &V) -> R) -> Option<R>
    where
        K: Borrow<Q>,
        Q: Hash + Eq + ?Sized,
    {
        self.get(key).map(|r| {
            let (k, v) = r.pair();
            f(k, v)
        })
    }

    fn _entry(&'a self, key: K) -> Entry<'a, K, V, S> {
        let hash = self.hash_usize(&key);

        let idx = self.determine_shard(hash);

        let shard = unsafe { self._yield_write_shard(idx) };

        if let Some((kptr, vptr)) = shard.get_key_value(&key) {
            unsafe {
                let kptr: *const K = kptr;
                let vptr: *mut V = vptr.as_ptr();
                Entry::Occupied(OccupiedEntry::new(shard, key, (kptr, vptr)))
            }
        } else {
            unsafe { Entry::Vacant(VacantEntry::new(shard, key)) }
        }
    }

    fn _try_entry(&'a self, key: K) -> Option<Entry<'a, K, V, S>> {
        let hash = self.hash_usize(&key);

        let idx = self.determine_shard(hash);

        let shard = match unsafe { self._try_yield_write_shard(idx) } {
            Some(shard) => shard,
            None => return None,
        };

        if let Some((kptr, vptr)) = shard.get_key_value(&key) {
            unsafe {
                let kptr: *const K = kptr;
                let vptr: *mut V = vptr.as_ptr();

                Some(Entry::Occupied(OccupiedEntry::new(
                    shard,
                    key,
                    (kptr, vptr),
                )))
            }
        } else {
            unsafe { Some(Entry::Vacant(VacantEntry::new(shard, key))) }
        }
    }

    fn _hasher(&self) -> S {
        self.hasher.clone()
    }
}

impl<K: Eq + Hash + fmt::Debug, V: fmt::Debug, S: BuildHasher + Clone> fmt::Debug
    for DashMap<K, V, S>
{
    fn fmt(&self, f: &mut fmt::Formatter<'_>) -> fmt::Result {
        let mut pmap = f.debug_map();

        for r in self {
            let (k, v) = r.pair();

            pmap.entry(k, v);
        }

        pmap.finish()
    }
}

impl<'a, K: 'a + Eq + Hash, V: 'a, S: BuildHasher + Clone> Shl<(K, V)> for &'a DashMap<K, V, S> {
    type Output = Option<V>;

    fn shl(self, pair: (K, V)) -> Self::Output {
        self.insert(pair.0, pair.1)
    }
}

impl<'a, K: 'a + Eq + Hash, V: 'a, S: BuildHasher + Clone, Q> Shr<&Q> for &'a DashMap<K, V, S>
where
    K: Borrow<Q>,
    Q: Hash + Eq + ?Sized,
{
    type Output = Ref<'a, K, V, S>;

    fn shr(self, key: &Q) -> Self::Output {
        self.get(key).unwrap()
    }
}

impl<'a, K: 'a + Eq + Hash, V: 'a, S: BuildHasher + Clone, Q> BitOr<&Q> for &'a DashMap<K, V, S>
where
    K: Borrow<Q>,
    Q: Hash + Eq + ?Sized,
{
    type Output = RefMut<'a, K, V, S>;

    fn bitor(self, key: &Q) -> Self::Output {
        self.get_mut(key).unwrap()
    }
}

impl<'a, K: 'a + Eq + Hash, V: 'a, S: BuildHasher + Clone, Q> Sub<&Q> for &'a DashMap<K, V, S>
where
    K: Borrow<Q>,
    Q: Hash + Eq + ?Sized,
{
    type Output = Option<(K, V)>;

    fn sub(self, key: &Q) -> Self::Output {
        self.remove(key)
    }
}

impl<'a, K: 'a + Eq + Hash, V: 'a, S: BuildHasher + Clone, Q> BitAnd<&Q> for &'a DashMap<K, V, S>
where
    K: Borrow<Q>,
    Q: Hash + Eq + ?Sized,
{
    type Output = bool;

    fn bitand(self, key: &Q) -> Self::Output {
        self.contains_key(key)
    }
}

impl<'a, K: Eq + Hash, V, S: BuildHasher + Clone> IntoIterator for DashMap<K, V, S> {
    type Item = (K, V);

    type IntoIter = OwningIter<K, V, S>;

    fn into_iter(self) -> Self::IntoIter {
        OwningIter::new(self)
    }
}

impl<'a, K: Eq + Hash, V, S: BuildHasher + Clone> IntoIterator for &'a DashMap<K, V, S> {
    type Item = RefMulti<'a, K, V, S>;

    type IntoIter = Iter<'a, K, V, S, DashMap<K, V, S>>;

    fn into_iter(self) -> Self::IntoIter {
        self.iter()
    }
}

impl<K: Eq + Hash, V, S: BuildHasher + Clone> Extend<(K, V)> for DashMap<K, V, S> {
    fn extend<I: IntoIterator<Item = (K, V)>>(&mut self, intoiter: I) {
        for pair in intoiter.into_iter() {
            self.insert(pair.0, pair.1);
        }
    }
}

impl<K: Eq + Hash, V, S: BuildHasher + Clone + Default> FromIterator<(K, V)> for DashMap<K, V, S> {
    fn from_iter<I: IntoIterator<Item = (K, V)>>(intoiter: I) -> Self {
        let mut map = DashMap::default();

        map.extend(intoiter);

        map
    }
}

#[cfg(test)]
mod tests {
    use crate::DashMap;
    use crate::seeded::RandomState;

    #[test]
    fn test_basic() {
        let dm = DashMap::new();

        dm.insert(0, 0);

        assert_eq!(dm.get(&0).unwrap().value(), &0);
    }

    #[test]
    fn test_default() {
        let dm: DashMap<u32, u32> = DashMap::default();

        dm.insert(0, 0);

        assert_eq!(dm.get(&0).unwrap().value(), &0);
    }

    #[test]
    fn test_multiple_hashes() {
        let dm: DashMap<u32, u32> = DashMap::default();

        for i in 0..100 {
            dm.insert(0, i);

            dm.insert(i, i);
        }

        for i in 1..100 {
            let r = dm.get(&i).unwrap();

            assert_eq!(i, *r.value());

            assert_eq!(i, *r.key());
        }

        let r = dm.get(&0).unwrap();

        assert_eq!(99, *r.value());
    }

    #[test]
    fn test_more_complex_values() {
        #[derive(Hash, PartialEq, Debug, Clone)]

        struct T0 {
            s: String,
            u: u8,
        }

        let dm = DashMap::new();

        let range = 0..10;

        for i in range {
            let t = T0 {
                s: i.to_string(),
                u: i as u8,
            };

            dm.insert(i, t.clone());

            assert_eq!(&t, dm.get(&i).unwrap().value());
        }
    }

    #[test]
    fn test_different_hashers_randomstate() {
        let dm_hm_default: DashMap<u32, u32, RandomState> =
            DashMap::with_hasher(RandomState::new());

        for i in 0..10 {
            dm_hm_default.insert(i, i);

            assert_eq!(i, *dm_hm_default.get(&i).unwrap().value());
        }
    }

    #[test]
    fn test_map_view() {
        let dm = DashMap::new();

        let vegetables: [String; 4] = [
            "Salad".to_string(),
            "Beans".to_string(),
            "Potato".to_string(),
            "Tomato".to_string(),
        ];

        // Give it some values
        dm.insert(0, "Banana".to_string());
        dm.insert(4, "Pear".to_string());
        dm.insert(9, "Potato".to_string());
        dm.insert(12, "Chicken".to_string());

        let potato_vegetableness = dm.view(&9, |_, v| vegetables.contains(v));
        assert_eq!(potato_vegetableness, Some(true));

        let chicken_vegetableness = dm.view(&12, |_, v| vegetables.contains(v));
        assert_eq!(chicken_vegetableness, Some(false));

        let not_in_map = dm.view(&30, |_k, _v| false);
        assert_eq!(not_in_map, None);
    }

    #[test]
    fn test_try_get() {
        {
            let map = DashMap::new();
            map.insert("Johnny", 21);

            assert_eq!(*map.try_get("Johnny").unwrap(), 21);

            let _result1_locking = map.get_mut("Johnny");

            let result2 = map.try_get("Johnny");
            assert!(result2.is_locked());
        }

        {
            let map = DashMap::new();
            map.insert("Johnny", 21);

            *map.try_get_mut("Johnny").unwrap() += 1;
            assert_eq!(*map.get("Johnny").unwrap(), 22);

            let _result1_locking = map.get("Johnny");

            let result2 = map.try_get_mut("Johnny");
            assert!(result2.is_locked());
        }
    }
}
