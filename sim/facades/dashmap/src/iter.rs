use super::mapref::multiple::{RefMulti, RefMutMulti};
use super::util;
use crate::t::Map;
use crate::util::SharedValue;
use crate::{DashMap, HashMap};
use core::hash::{BuildHasher, Hash};
use core::mem;
use parking_lot::{RwLockReadGuard, RwLockWriteGuard};
use std::collections::hash_map;
use crate::seeded::RandomState;
use std::sync::Arc;

/// Iterator over a DashMap yielding key value pairs.
///
/// # Examples
///
/// ```
/// use dashmap::DashMap;
///
/// let map = DashMap::new();
/// map.insert("hello", "world");
/// map.insert("alex", "steve");
/// let pairs: Vec<(&'static str, &'static str)> = map.into_iter().collect();
/// assert_eq!(pairs.len(), 2);
/// ```
pub struct OwningIter<K, V, S = RandomState> {
    map: DashMap<K, V, S>,
    shard_i: usize,
    current: Option<GuardOwningIter<K, V>>,
}

impl<K: Eq + Hash, V, S: BuildHasher + Clone> OwningIter<K, V, S> {
    pub(crate) fn new(map: DashMap<K, V, S>) -> Self {
        Self {
            map,
            shard_i: 0,
            current: None,
        }
    }
}

type GuardOwningIter<K, V> = hash_map::IntoIter<K, SharedValue<V>>;

impl<K: Eq + Hash, V, S: BuildHasher + Clone> Iterator for OwningIter<K, V, S> {
    type Item = (K, V);

    fn next(&mut self) -> Option<Self::Item> {
        loop {
            if let Some(current) = self.current.as_mut() {
                if let Some((k, v)) = current.next() {
                    return Some((k, v.into_inner()));
                }
            }

            if self.shard_i == self.map._shard_count() {
                return None;
            }

            //let guard = unsafe { self.map._yield_read_shard(self.shard_i) };
            let mut shard_wl = unsafe { self.map._yield_write_shard(self.shard_i) };

            let hasher = self.map._hasher();

            let map = mem::replace(&mut *shard_wl, HashMap::with_hasher(hasher));

            drop(shard_wl);

            let iter = map.into_iter();

            //unsafe { ptr::write(&mut self.current, Some((arcee, iter))); }
            self.current = Some(iter);

            self.shard_i += 1;
        }
    }
}

unsafe impl<K, V, S> Send for OwningIter<K, V, S>
where
    K: Eq + Hash + Send,
    V: Send,
    S: BuildHasher + Clone + Send,
{
}

unsafe impl<K, V, S> Sync for OwningIter<K, V, S>
where
    K: Eq + Hash + Sync,
    V: Sync,
    S: BuildHasher + Clone + Sync,
{
}

type GuardIter<'a, K, V, S> = (
    Arc<RwLockReadGuard<'a, HashMap<K, V, S>>>,
    hash_map::Iter<'a, K, SharedValue<V>>,
);

type GuardIterMut<'a, K, V, S> = (
    Arc<RwLockWriteGuard<'a, HashMap<K, V, S>>>,
    hash_map::IterMut<'a, K, SharedValue<V>>,
);

/// Iterator over a DashMap yielding immutable references.
///
/// # Examples
///
/// ```
/// use dashmap::DashMap;
///
/// let map = DashMap::new();
/// map.insert("hello", "world");
/// assert_eq!(map.iter().count(), 1);
/// ```
pub struct Iter<'a, K, V, S = RandomState, M = DashMap<K, V, S>> {
    map: &'a M,
    shard_i: usize,
    current: Option<GuardIter<'a, K, V, S>>,
}

impl<'a, 'i, K: Clone + Hash + Eq, V: Clone, S: Clone + BuildHasher> Clone for Iter<'i, K, V, S> {
    fn clone(&self) -> Self {
        Iter::new(self.map)
    }
}

unsafe impl<'a, 'i, K, V, S, M> Send for Iter<'i, K, V, S, M>
where
    K: 'a + Eq + Hash + Send,
    V: 'a + Send,
    S: 'a + BuildHasher + Clone,
    M: Map<'a, K, V, S>,
{
}

unsafe impl<'a, 'i, K, V, S, M> Sync for Iter<'i, K, V, S, M>
where
    K: 'a + Eq + Hash + Sync,
    V: 'a + Sync,
    S: 'a + BuildHasher + Clone,
    M: Map<'a, K, V, S>,
{
}

impl<'a, K: Eq + Hash, V, S: 'a + BuildHasher + Clone, M: Map<'a, K, V, S>> Iter<'a, K, V, S, M> {
    pub(crate) fn new(map: &'a M) -> Self {
        Self {
            map,
            shard_i: 0,
            current: None,
        }
    }
}

impl<'a, K: Eq + Hash, V, S: 'a + BuildHasher + Clone, M: Map<'a, K, V, S>> Iterator
    for Iter<'a, K, V, S, M>
{
    type Item = RefMulti<'a, K, V, S>;

    fn next(&mut self) -> Option<Self::Item> {
        loop {
            if let Some(current) = self.current.as_mut() {
                if let Some((k, v)) = current.1.next() {
                    let guard = current.0.clone();

                    return unsafe { Some(RefMulti::new(guard, k, v.get())) };
                }
            }

            if self.shard_i == self.map._shard_count() {
                return None;
            }

            let guard = unsafe { self.map._yield_read_shard(self.shard_i) };

            let sref: &HashMap<K, V, S> = unsafe { util::change_lifetime_const(&*guard) };

            let iter = sref.iter();

            self.current = Some((Arc::new(guard), iter));

            self.shard_i += 1;
        }
    }
}

/// Iterator over a DashMap yielding mutable references.
///
/// # Examples
///
/// ```
/// use dashmap::DashMap;
///
/// let map = DashMap::new();
/// map.insert("Johnny", 21);
/// map.iter_mut().for_each(|mut r| *r += 1);
/// assert_eq!(*map.get("Johnny").unwrap(), 22);
/// ```
pub struct IterMut<'a, K, V, S = RandomState, M = DashMap<K, V, S>> {
    map: &'a M,
    shard_i: usize,
    current: Option<GuardIterMut<'a, K, V, S>>,
}

unsafe impl<'a, 'i, K, V, S, M> Send for IterMut<'i, K, V, S, M>
where
    K: 'a + Eq + Hash + Send,
    V: 'a + Send,
    S: 'a + BuildHasher + Clone,
    M: Map<'a, K, V, S>,
{
}

unsafe impl<'a, 'i, K, V, S, M> Sync for IterMut<'i, K, V, S, M>
where
    K: 'a + Eq + Hash + Sync,
    V: 'a + Sync,
    S: 'a + BuildHasher + Clone,
    M: Map<'a, K, V, S>,
{
}

impl<'a, K: Eq + Hash, V, S: 'a + BuildHasher + Clone, M: Map<'a, K, V, S>>
    IterMut<'a, K, V, S, M>
{
    pub(crate) fn new(map: &'a M) -> Self {
        Self {
            map,
            shard_i: 0,
            current: None,
        }
    }
}

impl<'a, K: Eq + Hash, V, S: 'a + BuildHasher + Clone, M: Map<'a, K, V, S>> Iterator
    for IterMut<'a, K, V, S, M>
{
    type Item = RefMutMulti<'a, K, V, S>;

    fn next(&mut self) -> Option<Self::Item> {
        loop {
            if let Some(current) = self.current.as_mut() {
                if let Some((k, v)) = current.1.next() {
                    let guard = current.0.clone();

                    unsafe {
                        let k = util::change_lifetime_const(k);

                        let v = &mut *v.as_ptr();

                        return Some(RefMutMulti::new(guard, k, v));
                    }
                }
            }

            if self.shard_i == self.map._shard_count() {
                return None;
            }

            let mut guard = unsafe { self.map._yield_write_shard(self.shard_i) };

            let sref: &mut HashMap<K, V, S> = unsafe { util::change_lifetime_mut(&mut *guard) };

            let iter = sref.iter_mut();

            self.current = Some((Arc::new(guard), iter));

            self.shard_i += 1;
        }
    }
}

#[cfg(test)]
mod tests {
    use crate::DashMap;

    #[test]
    fn iter_mut_manual_count() {
        let map = DashMap::new();

        map.insert("Johnny", 21);

        assert_eq!(map.len(), 1);

        let mut c = 0;

        for shard in map.shards() {
            c += shard.write().iter_mut().count();
        }

        assert_eq!(c, 1);
    }

    #[test]
    fn iter_mut_count() {
        let map = DashMap::new();

        map.insert("Johnny", 21);

        assert_eq!(map.len(), 1);

        assert_eq!(map.iter_mut().count(), 1);
    }

    #[test]
    fn iter_count() {
        let map = DashMap::new();

        map.insert("Johnny", 21);

        assert_eq!(map.len(), 1);

        assert_eq!(map.iter().count(), 1);
    }
}
