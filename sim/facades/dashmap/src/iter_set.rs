use crate::setref::multiple::RefMulti;
use crate::t::Map;
use core::hash::{BuildHasher, Hash};

pub struct OwningIter<K, S> {
    inner: crate::iter::OwningIter<K, (), S>,
}

impl<K: Eq + Hash, S: BuildHasher + Clone> OwningIter<K, S> {
    pub(crate) fn new(inner: crate::iter::OwningIter<K, (), S>) -> Self {
        Self { inner }
    }
}

impl<K: Eq + Hash, S: BuildHasher + Clone> Iterator for OwningIter<K, S> {
    type Item = K;

    fn next(&mut self) -> Option<Self::Item> {
        self.inner.next().map(|(k, _)| k)
    }
}

unsafe impl<K, S> Send for OwningIter<K, S>
where
    K: Eq + Hash + Send,
    S: BuildHasher + Clone + Send,
{
}

unsafe impl<K, S> Sync for OwningIter<K, S>
where
    K: Eq + Hash + Sync,
    S: BuildHasher + Clone + Sync,
{
}

pub struct Iter<'a, K, S, M> {
    inner: crate::iter::Iter<'a, K, (), S, M>,
}

unsafe impl<'a, 'i, K, S, M> Send for Iter<'i, K, S, M>
where
    K: 'a + Eq + Hash + Send,
    S: 'a + BuildHasher + Clone,
    M: Map<'a, K, (), S>,
{
}

unsafe impl<'a, 'i, K, S, M> Sync for Iter<'i, K, S, M>
where
    K: 'a + Eq + Hash + Sync,
    S: 'a + BuildHasher + Clone,
    M: Map<'a, K, (), S>,
{
}

impl<'a, K: Eq + Hash, S: 'a + BuildHasher + Clone, M: Map<'a, K, (), S>> Iter<'a, K, S, M> {
    pub(crate) fn new(inner: crate::iter::Iter<'a, K, (), S, M>) -> Self {
        Self { inner }
    }
}

impl<'a, K: Eq + Hash, S: 'a + BuildHasher + Clone, M: Map<'a, K, (), S>> Iterator
    for Iter<'a, K, S, M>
{
    type Item = RefMulti<'a, K, S>;

    fn next(&mut self) -> Option<Self::Item> {
        self.inner.next().map(RefMulti::new)
    }
}
