//! This module is full of hackery and dark magic.
//! Either spend a day fixing it and quietly submit a PR or don't mention it to anybody.
use core::cell::UnsafeCell;
use core::{mem, ptr};

pub const fn ptr_size_bits() -> usize {
    mem::size_of::<usize>() * 8
}

pub fn map_in_place_2<T, U, F: FnOnce(U, T) -> T>((k, v): (U, &mut T), f: F) {
    unsafe {
        // # Safety
        //
        // If the closure panics, we must abort otherwise we could double drop `T`
        let _promote_panic_to_abort = AbortOnPanic;

        ptr::write(v, f(k, ptr::read(v)));
    }
}

/// # Safety
///
/// Requires that you ensure the reference does not become invalid.
/// The object has to outlive the reference.
pub unsafe fn change_lifetime_const<'a, 'b, T>(x: &'a T) -> &'b T {
    &*(x as *const T)
}

/// # Safety
///
/// Requires that you ensure the reference does not become invalid.
/// The object has to outlive the reference.
pub unsafe fn change_lifetime_mut<'a, 'b, T>(x: &'a mut T) -> &'b mut T {
    &mut *(x as *mut T)
}

/// A simple wrapper around `T`
///
/// This is to prevent UB when using `HashMap::get_key_value`, because
/// `HashMap` doesn't expose an api to get the key and value, where
/// the value is a `&mut T`.
///
/// See [#10](https://github.com/xacrimon/dashmap/issues/10) for details
///
/// This type is meant to be an implementation detail, but must be exposed due to the `Dashmap::shards`
#[repr(transparent)]
pub struct SharedValue<T> {
    value: UnsafeCell<T>,
}

impl<T: Clone> Clone for SharedValue<T> {
    fn clone(&self) -> Self {
        let inner = self.get().clone();

        Self {
            value: UnsafeCell::new(inner),
        }
    }
}

unsafe impl<T: Send> Send for SharedValue<T> {}

unsafe impl<T: Sync> Sync for SharedValue<T> {}

impl<T> SharedValue<T> {
    /// Create a new `SharedValue<T>`
    pub const fn new(value: T) -> Self {
        Self {
            value: UnsafeCell::new(value),
        }
    }

    /// Get a shared reference to `T`
    pub fn get(&self) -> &T {
        unsafe { &*self.value.get() }
    }

    /// Get an unique reference to `T`
    pub fn get_mut(&mut self) -> &mut T {
        unsafe { &mut *self.value.get() }
    }

    /// Unwraps the value
    pub fn into_inner(self) -> T {
        self.value.into_inner()
    }

    /// Get a mutable raw pointer to the underlying value
    pub(crate) fn as_ptr(&self) -> *mut T {
        self.value.get()
    }
}

struct AbortOnPanic;

impl Drop for AbortOnPanic {
    fn drop(&mut self) {
        if std::thread::panicking() {
            std::process::abort()
        }
    }
}
