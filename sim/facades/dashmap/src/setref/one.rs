use crate::mapref;
use core::hash::{BuildHasher, Hash};
use core::ops::Deref;
use crate::seeded::RandomState;
pub struct Ref<'a, K, S = RandomState> {
    inner: mapref::one::Ref<'a, K, (), S>,
}

unsafe impl<'a, K: Eq + Hash + Send, S: BuildHasher> Send for Ref<'a, K, S> {}

unsafe impl<'a, K: Eq + Hash + Send + Sync, S: BuildHasher> Sync for Ref<'a, K, S> {}

impl<'a, K: Eq + Hash, S: BuildHasher> Ref<'a, K, S> {
    pub(crate) fn new(inner: mapref::one::Ref<'a, K, (), S>) -> Self {
        Self { inner }
    }

    pub fn key(&self) -> &K {
        self.inner.key()
    }
}

impl<'a, K: Eq + Hash, S: BuildHasher> Deref for Ref<'a, K, S> {
    type Target = K;

    fn deref(&self) -> &K {
        self.key()
    }
}
