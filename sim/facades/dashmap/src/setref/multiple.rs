use crate::mapref;
use core::hash::{BuildHasher, Hash};
use core::ops::Deref;
use crate::seeded::RandomState;
pub struct RefMulti<'a, K, S = RandomState> {
    inner: mapref::multiple::RefMulti<'a, K, (), S>,
}

impl<'a, K: Eq + Hash, S: BuildHasher> RefMulti<'a, K, S> {
    pub(crate) fn new(inner: mapref::multiple::RefMulti<'a, K, (), S>) -> Self {
        Self { inner }
    }

    pub fn key(&self) -> &K {
        self.inner.key()
    }
}

impl<'a, K: Eq + Hash, S: BuildHasher> Deref for RefMulti<'a, K, S> {
    type Target = K;

    fn deref(&self) -> &K {
        self.key()
    }
}
