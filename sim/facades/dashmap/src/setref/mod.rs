pub mod multiple;
pub mod one;
