//! Central map trait to ease modifications and extensions down the road.

use crate::iter::{Iter, IterMut};
use crate::mapref::entry::Entry;
use crate::mapref::one::{Ref, RefMut};
use crate::try_result::TryResult;
use crate::HashMap;
use core::borrow::Borrow;
use core::hash::{BuildHasher, Hash};
use parking_lot::{RwLockReadGuard, RwLockWriteGuard};

/// Implementation detail that is exposed due to generic constraints in public types.
pub trait Map<'a, K: 'a + Eq + Hash, V: 'a, S: 'a + Clone + BuildHasher> {
    fn _shard_count(&self) -> usize;

    /// # Safety
    ///
    /// The index must not be out of bounds.
    unsafe fn _get_read_shard(&'a self, i: usize) -> &'a HashMap<K, V, S>;

    /// # Safety
    ///
    /// The index must not be out of bounds.
    unsafe fn _yield_read_shard(&'a self, i: usize) -> RwLockReadGuard<'a, HashMap<K, V, S>>;

    /// # Safety
    ///
    /// The index must not be out of bounds.
    unsafe fn _yield_write_shard(&'a self, i: usize) -> RwLockWriteGuard<'a, HashMap<K, V, S>>;

    /// # Safety
    ///
    /// The index must not be out of bounds.
    unsafe fn _try_yield_read_shard(
        &'a self,
        i: usize,
    ) -> Option<RwLockReadGuard<'a, HashMap<K, V, S>>>;

    /// # Safety
    ///
    /// The index must not be out of bounds.
    unsafe fn _try_yield_write_shard(
        &'a self,
        i: usize,
    ) -> Option<RwLockWriteGuard<'a, HashMap<K, V, S>>>;

    fn _insert(&self, key: K, value: V) -> Option<V>;

    fn _remove<Q>(&self, key: &Q) -> Option<(K, V)>
    where
        K: Borrow<Q>,
        Q: Hash + Eq + ?Sized;

    fn _remove_if<Q>(&self, key: &Q, f: impl FnOnce(&K, &V) -> bool) -> Option<(K, V)>
    where
        K: Borrow<Q>,
        Q: Hash + Eq + ?Sized;

    fn _remove_if_mut<Q>(&self, key: &Q, f: impl FnOnce(&K, &mut V) -> bool) -> Option<(K, V)>
    where
        K: Borrow<Q>,
        Q: Hash + Eq + ?Sized;

    fn _iter(&'a self) -> Iter<'a, K, V, S, Self>
    where
        Self: Sized;

    fn _iter_mut(&'a self) -> IterMut<'a, K, V, S, Self>
    where
        Self: Sized;

    fn _get<Q>(&'a self, key: &Q) -> Option<Ref<'a, K, V, S>>
    where
        K: Borrow<Q>,
        Q: Hash + Eq + ?Sized;

    fn _get_mut<Q>(&'a self, key: &Q) -> Option<RefMut<'a, K, V, S>>
    where
        K: Borrow<Q>,
        Q: Hash + Eq + ?Sized;

    fn _try_get<Q>(&'a self, key: &Q) -> TryResult<Ref<'a, K, V, S>>
    where
        K: Borrow<Q>,
        Q: Hash + Eq + ?Sized;

    fn _try_get_mut<Q>(&'a self, key: &Q) -> TryResult<RefMut<'a, K, V, S>>
    where
        K: Borrow<Q>,
        Q: Hash + Eq + ?Sized;

    fn _shrink_to_fit(&self);

    fn _retain(&self, f: impl FnMut(&K, &mut V) -> bool);

    fn _len(&self) -> usize;

    fn _capacity(&self) -> usize;

    fn _alter<Q>(&self, key: &Q, f: impl FnOnce(&K, V) -> V)
    where
        K: Borrow<Q>,
        Q: Hash + Eq + ?Sized;

    fn _alter_all(&self, f: impl FnMut(&K, V) -> V);

    fn _view<Q, R>(&self, key: &Q, f: impl FnOnce(&K, &V) -> R) -> Option<R>
    where
        K: Borrow<Q>,
        Q: Hash + Eq + ?Sized;

    fn _entry(&'a self, key: K) -> Entry<'a, K, V, S>;

    fn _try_entry(&'a self, key: K) -> Option<Entry<'a, K, V, S>>;

    fn _hasher(&self) -> S;

    // provided
    fn _clear(&self) {
        self._retain(|_, _| false)
    }

    fn _contains_key<Q>(&'a self, key: &Q) -> bool
    where
        K: Borrow<Q>,
        Q: Hash + Eq + ?Sized,
    {
        self._get(key).is_some()
    }

    fn _is_empty(&self) -> bool {
        self._len() == 0
    }
}
