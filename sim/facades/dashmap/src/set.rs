use crate::iter_set::{Iter, OwningIter};
use crate::setref::one::Ref;
use crate::DashMap;
#[cfg(feature = "raw-api")]
use crate::HashMap;
use cfg_if::cfg_if;
use core::borrow::Borrow;
use core::fmt;
use core::hash::{BuildHasher, Hash};
use core::iter::FromIterator;
#[cfg(feature = "raw-api")]
use parking_lot::RwLock;
use crate::seeded::RandomState;

/// DashSet is a thin wrapper around [`DashMap`] using `()` as the value type. It uses
/// methods and types which are more convenient to work with on a set.
///
/// [`DashMap`]: struct.DashMap.html
pub struct DashSet<K, S = RandomState> {
    pub(crate) inner: DashMap<K, (), S>,
}

impl<K: Eq + Hash + fmt::Debug, S: BuildHasher + Clone> fmt::Debug for DashSet<K, S> {
    fn fmt(&self, f: &mut fmt::Formatter<'_>) -> fmt::Result {
        fmt::Debug::fmt(&self.inner, f)
    }
}

impl<K: Eq + Hash + Clone, S: Clone> Clone for DashSet<K, S> {
    fn clone(&self) -> Self {
        Self {
            inner: self.inner.clone(),
        }
    }

    fn clone_from(&mut self, source: &Self) {
        self.inner.clone_from(&source.inner)
    }
}

impl<K, S> Default for DashSet<K, S>
where
    K: Eq + Hash,
    S: Default + BuildHasher + Clone,
{
    fn default() -> Self {
        Self::with_hasher(Default::default())
    }
}

impl<'a, K: 'a + Eq + Hash> DashSet<K, RandomState> {
    /// Creates a new DashSet with a capacity of 0.
    ///
    /// # Examples
    ///
    /// ```
    /// use dashmap::DashSet;
    ///
    /// let games = DashSet::new();
    /// games.insert("Veloren");
    /// ```
    pub fn new() -> Self {
        Self::with_hasher(RandomState::default())
    }

    /// Creates a new DashMap with a specified starting capacity.
    ///
    /// # Examples
    ///
    /// ```
    /// use dashmap::DashSet;
    ///
    /// let numbers = DashSet::with_capacity(2);
    /// numbers.insert(2);
    /// numbers.insert(8);
    /// ```
    pub fn with_capacity(capacity: usize) -> Self {
        Self::with_capacity_and_hasher(capacity, RandomState::default())
    }
}

impl<'a, K: 'a + Eq + Hash, S: BuildHasher + Clone> DashSet<K, S> {
    /// Creates a new DashMap with a capacity of 0 and the provided hasher.
    ///
    /// # Examples
    ///
    /// ```
    /// use dashmap::DashSet;
    /// use std::collections::hash_map::RandomState;
    ///
    /// let s = RandomState::new();
    /// let games = DashSet::with_hasher(s);
    /// games.insert("Veloren");
    /// ```
    pub fn with_hasher(hasher: S) -> Self {
        Self::with_capacity_and_hasher(0, hasher)
    }

    /// Creates a new DashMap with a specified starting capacity and hasher.
    ///
    /// # Examples
    ///
    /// ```
    /// use dashmap::DashSet;
    /// use std::collections::hash_map::RandomState;
    ///
    /// let s = RandomState::new();
    /// let numbers = DashSet::with_capacity_and_hasher(2, s);
    /// numbers.insert(2);
    /// numbers.insert(8);
    /// ```
    pub fn with_capacity_and_hasher(capacity: usize, hasher: S) -> Self {
        Self {
            inner: DashMap::with_capacity_and_hasher(capacity, hasher),
        }
    }

    /// Hash a given item to produce a usize.
    /// Uses the provided or default HashBuilder.
    pub fn hash_usize<T: Hash>(&self, item: &T) -> usize {
        self.inner.hash_usize(item)
    }

    cfg_if! {
        if #[cfg(feature = "raw-api")] {
            /// Allows you to peek at the inner shards that store your data.
            /// You should probably not use this unless you know what you are doing.
            ///
            /// Requires the `raw-api` feature to be enabled.
            ///
            /// # Examples
            ///
            /// ```
            /// use dashmap::DashSet;
            ///
            /// let set = DashSet::<()>::new();
            /// println!("Amount of shards: {}", set.shards().len());
            /// ```
            pub fn shards(&self) -> &[RwLock<HashMap<K, (), S>>] {
                self.inner.shards()
            }
        }
    }

    cfg_if! {
        if #[cfg(feature = "raw-api")] {
            /// Finds which shard a certain key is stored in.
            /// You should probably not use this unless you know what you are doing.
            /// Note that shard selection is dependent on the default or provided HashBuilder.
            ///
            /// Requires the `raw-api` feature to be enabled.
            ///
            /// # Examples
            ///
            /// ```
            /// use dashmap::DashSet;
            ///
            /// let set = DashSet::new();
            /// set.insert("coca-cola");
            /// println!("coca-cola is stored in shard: {}", set.determine_map("coca-cola"));
            /// ```
            pub fn determine_map<Q>(&self, key: &Q) -> usize
            where
                K: Borrow<Q>,
                Q: Hash + Eq + ?Sized,
            {
                self.inner.determine_map(key)
            }
        }
    }

    cfg_if! {
        if #[cfg(feature = "raw-api")] {
            /// Finds which shard a certain hash is stored in.
            ///
            /// Requires the `raw-api` feature to be enabled.
            ///
            /// # Examples
            ///
            /// ```
            /// use dashmap::DashSet;
            ///
            /// let set: DashSet<i32> = DashSet::new();
            /// let key = "key";
            /// let hash = set.hash_usize(&key);
            /// println!("hash is stored in shard: {}", set.determine_shard(hash));
            /// ```
            pub fn determine_shard(&self, hash: usize) -> usize {
                self.inner.determine_shard(hash)
            }
        }
    }

    /// Inserts a key into the set. Returns true if the key was not already in the set.
    ///
    /// # Examples
    ///
    /// ```
    /// use dashmap::DashSet;
    ///
    /// let set = DashSet::new();
    /// set.insert("I am the key!");
    /// ```
    pub fn insert(&self, key: K) -> bool {
        self.inner.insert(key, ()).is_none()
    }

    /// Removes an entry from the map, returning the key if it existed in the map.
    ///
    /// # Examples
    ///
    /// ```
    /// use dashmap::DashSet;
    ///
    /// let soccer_team = DashSet::new();
    /// soccer_team.insert("Jack");
    /// assert_eq!(soccer_team.remove("Jack").unwrap(), "Jack");
    /// ```
    pub fn remove<Q>(&self, key: &Q) -> Option<K>
    where
        K: Borrow<Q>,
        Q: Hash + Eq + ?Sized,
    {
        self.inner.remove(key).map(|(k, _)| k)
    }

    /// Removes an entry from the set, returning the key
    /// if the entry existed and the provided conditional function returned true.
    ///
    /// ```
    /// use dashmap::DashSet;
    ///
    /// let soccer_team = DashSet::new();
    /// soccer_team.insert("Sam");
    /// soccer_team.remove_if("Sam", |player| player.starts_with("Ja"));
    /// assert!(soccer_team.contains("Sam"));
    /// ```
    /// ```
    /// use dashmap::DashSet;
    ///
    /// let soccer_team = DashSet::new();
    /// soccer_team.insert("Sam");
    /// soccer_team.remove_if("Jacob", |player| player.starts_with("Ja"));
    /// assert!(!soccer_team.contains("Jacob"));
    /// ```
    pub fn remove_if<Q>(&self, key: &Q, f: impl FnOnce(&K) -> bool) -> Option<K>
    where
        K: Borrow<Q>,
        Q: Hash + Eq + ?Sized,
    {
        // TODO: Don't create another closure around f
        self.inner.remove_if(key, |k, _| f(k)).map(|(k, _)| k)
    }

    /// Creates an iterator over a DashMap yielding immutable references.
    ///
    /// # Examples
    ///
    /// ```
    /// use dashmap::DashSet;
    ///
    /// let words = DashSet::new();
    /// words.insert("hello");
    /// assert_eq!(words.iter().count(), 1);
    /// ```
    pub fn iter(&'a self) -> Iter<'a, K, S, DashMap<K, (), S>> {
        let iter = self.inner.iter();

        Iter::new(iter)
    }

    /// Get a reference to an entry in the set
    ///
    /// # Examples
    ///
    /// ```
    /// use dashmap::DashSet;
    ///
    /// let youtubers = DashSet::new();
    /// youtubers.insert("Bosnian Bill");
    /// assert_eq!(*youtubers.get("Bosnian Bill").unwrap(), "Bosnian Bill");
    /// ```
    pub fn get<Q>(&'a self, key: &Q) -> Option<Ref<'a, K, S>>
    where
        K: Borrow<Q>,
        Q: Hash + Eq + ?Sized,
    {
        self.inner.get(key).map(Ref::new)
    }

    /// Remove excess capacity to reduce memory usage.
    pub fn shrink_to_fit(&self) {
        self.inner.shrink_to_fit()
    }

    /// Retain elements that whose predicates return true
    /// and discard elements whose predicates return false.
    ///
    /// # Examples
    ///
    /// ```
    /// use dashmap::DashSet;
    ///
    /// let people = DashSet::new();
    /// people.insert("Albin");
    /// people.insert("Jones");
    /// people.insert("Charlie");
    /// people.retain(|name| name.contains('i'));
    /// assert_eq!(people.len(), 2);
    /// ```
    pub fn retain(&self, mut f: impl FnMut(&K) -> bool) {
        self.inner.retain(|k, _| f(k))
    }

    /// Fetches the total number of keys stored in the set.
    ///
    /// # Examples
    ///
    /// ```
    /// use dashmap::DashSet;
    ///
    /// let people = DashSet::new();
    /// people.insert("Albin");
    /// people.insert("Jones");
    /// people.insert("Charlie");
    /// assert_eq!(people.len(), 3);
    /// ```
    pub fn len(&self) -> usize {
        self.inner.len()
    }

    /// Checks if the set is empty or not.
    ///
    /// # Examples
    ///
    /// ```
    /// use dashmap::DashSet;
    ///
    /// let map = DashSet::<()>::new();
    /// assert!(map.is_empty());
    /// ```
    pub fn is_empty(&self) -> bool {
        self.inner.is_empty()
    }

    /// Removes all keys in the set.
    ///
    /// # Examples
    ///
    /// ```
    /// use dashmap::DashSet;
    ///
    /// let people = DashSet::new();
    /// people.insert("Albin");
    /// assert!(!people.is_empty());
    /// people.clear();
    /// assert!(people.is_empty());
    /// ```
    pub fn clear(&self) {
        self.inner.clear()
    }

    /// Returns how many keys the set can store without reallocating.
    pub fn capacity(&self) -> usize {
        self.inner.capacity()
    }

    /// Checks if the set contains a specific key.
    ///
    /// # Examples
    ///
    /// ```
    /// use dashmap::DashSet;
    ///
    /// let people = DashSet::new();
    /// people.insert("Dakota Cherries");
    /// assert!(people.contains("Dakota Cherries"));
    /// ```
    pub fn contains<Q>(&self, key: &Q) -> bool
    where
        K: Borrow<Q>,
        Q: Hash + Eq + ?Sized,
    {
        self.inner.contains_key(key)
    }
}

impl<'a, K: Eq + Hash, S: BuildHasher + Clone> IntoIterator for DashSet<K, S> {
    type Item = K;

    type IntoIter = OwningIter<K, S>;

    fn into_iter(self) -> Self::IntoIter {
        OwningIter::new(self.inner.into_iter())
    }
}

impl<K: Eq + Hash, S: BuildHasher + Clone> Extend<K> for DashSet<K, S> {
    fn extend<T: IntoIterator<Item = K>>(&mut self, iter: T) {
        let iter = iter.into_iter().map(|k| (k, ()));

        self.inner.extend(iter)
    }
}

impl<K: Eq + Hash, S: BuildHasher + Clone + Default> FromIterator<K> for DashSet<K, S> {
    fn from_iter<I: IntoIterator<Item = K>>(iter: I) -> Self {
        let mut set = DashSet::default();

        set.extend(iter);

        set
    }
}

#[cfg(test)]
mod tests {
    use crate::DashSet;

    #[test]
    fn test_basic() {
        let set = DashSet::new();

        set.insert(0);

        assert_eq!(set.get(&0).as_deref(), Some(&0));
    }

    #[test]
    fn test_default() {
        let set: DashSet<u32> = DashSet::default();

        set.insert(0);

        assert_eq!(set.get(&0).as_deref(), Some(&0));
    }

    #[test]
    fn test_multiple_hashes() {
        let set = DashSet::<u32>::default();

        for i in 0..100 {
            assert!(set.insert(i));
        }

        for i in 0..100 {
            assert!(!set.insert(i));
        }

        for i in 0..100 {
            assert_eq!(Some(i), set.remove(&i));
        }

        for i in 0..100 {
            assert_eq!(None, set.remove(&i));
        }
    }
}
