//! Seeded replacement for `std::collections::hash_map::RandomState` (the only edit to the
//! vendored dashmap source): SipHash with keys drawn from the run's "hasher" stream, so the
//! iteration order of a map is a function of the run seed.
use std::collections::hash_map::DefaultHasher;
use std::hash::{BuildHasher, Hasher};

#[derive(Clone, Debug)]
pub struct RandomState {
    k0: u64,
    k1: u64,
}

impl RandomState {
    pub fn new() -> Self {
        match simrt::current() {
            Some((sim, _)) => sim.with_stream("hasher", |r| RandomState { k0: r.next_u64(), k1: r.next_u64() }),
            None => RandomState { k0: 0x1357_9bdf_0246_8ace, k1: 0x0f1e_2d3c_4b5a_6978 },
        }
    }
}

impl Default for RandomState {
    fn default() -> Self {
        RandomState::new()
    }
}

impl BuildHasher for RandomState {
    type Hasher = DefaultHasher;
    fn build_hasher(&self) -> DefaultHasher {
        let mut h = DefaultHasher::new();
        h.write_u64(self.k0);
        h.write_u64(self.k1);
        h
    }
}
