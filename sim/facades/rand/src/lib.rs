//! Facade for `rand`: everything is the real crate except `thread_rng`/`random`, which draw
//! from the run's "jitter" stream. With the buggify knob on, draws are forced to the extremes
//! (all-zero / all-one bits), which maps `Uniform` samples to the ends of their range.
pub use real_rand::*;

use std::sync::atomic::{AtomicU32, Ordering};

/// 0 = plain stream, otherwise per-mille chance that a draw is an extreme value
pub static EXTREME_PER_MILLE: AtomicU32 = AtomicU32::new(0);

#[derive(Clone, Debug, Default)]
pub struct ThreadRng(());

pub fn thread_rng() -> ThreadRng {
    ThreadRng(())
}

fn draw() -> u64 {
    match simrt::current() {
        Some((sim, _)) => sim.with_stream("jitter", |r| {
            let pm = EXTREME_PER_MILLE.load(Ordering::Relaxed) as u64;
            if pm > 0 && r.below(1000) < pm {
                sim.probe("jitter_extreme");
                if r.one_in(2) {
                    0
                } else {
                    u64::MAX
                }
            } else {
                r.next_u64()
            }
        }),
        None => 0x9E37_79B9_7F4A_7C15,
    }
}

impl RngCore for ThreadRng {
    fn next_u32(&mut self) -> u32 {
        (draw() >> 32) as u32
    }
    fn next_u64(&mut self) -> u64 {
        draw()
    }
    fn fill_bytes(&mut self, dest: &mut [u8]) {
        for chunk in dest.chunks_mut(8) {
            let v = draw().to_le_bytes();
            chunk.copy_from_slice(&v[..chunk.len()]);
        }
    }
    fn try_fill_bytes(&mut self, dest: &mut [u8]) -> Result<(), Error> {
        self.fill_bytes(dest);
        Ok(())
    }
}

impl CryptoRng for ThreadRng {}

pub fn random<T>() -> T
where
    distributions::Standard: distributions::Distribution<T>,
{
    thread_rng().gen()
}
